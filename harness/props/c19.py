"""C19 -- SumGrader accepts exactly the sums equal in value to the author's.

Tie (A): coq/Gen/Summation.v regenerated from integralgrader.py (perform_summation, limit checks, cutoff choice).
Tie (B): every grader call below is replayed by the Coq model (Model/Summation.v) on the recorded oracle I/O
         (parser, evaluator, name test) and must give the same outcome, the same sums and the same evaluation
         points; the regenerated plan is checked against the index-set specification on the same limits.
Oracle : an exact Fraction reference (harness/summation_exprs.py) for the sums and the verdict, the evaluated index
         set, and the error classes the property names.
"""
import copy
import math
import os
import sys
import random
import re
from fractions import Fraction

from harness import core
from harness import summation_exprs as sx
from translate import summation as tr_summation

ID = 'C19'
PROPS = 'Props/C19.v'
TRANSLATORS = [('Gen/Summation.v', tr_summation.generate)]
MIRRORED = [('mitxgraders/formulagrader/integralgrader.py', 'SummationGraderBase'),
            ('mitxgraders/formulagrader/integralgrader.py', 'SumGrader.gen_evaluations'),
            ('mitxgraders/formulagrader/integralgrader.py', 'SumGrader.evaluate_sum'),
            ('mitxgraders/formulagrader/integralgrader.py', 'SumGrader.perform_summation'),
            ('mitxgraders/formulagrader/integralgrader.py', 'is_valid_variable_name'),
            ('mitxgraders/formulagrader/integralgrader.py', 'transform_list_to_dict'),
            ('mitxgraders/helpers/math_helpers.py', 'MathMixin.consolidate_results'),
            ('mitxgraders/helpers/math_helpers.py', 'MathMixin.compare_evaluations'),
            ('mitxgraders/helpers/math_helpers.py', 'MathMixin.gen_var_and_func_samples'),
            ('mitxgraders/helpers/math_helpers.py', 'MathMixin.get_used_vars'),
            ('mitxgraders/helpers/math_helpers.py', 'MathMixin.check_math_response')]

FIELDS = ['lower', 'upper', 'summand', 'summation_variable']
SUM_MESSAGES = [
    (re.compile(r'Summation variable .* conflicts with another previously-defined variable\.$'), 'MConflict'),
    (re.compile(r'Summation limits must be real but have evaluated to complex numbers\.$'), 'MComplex'),
    (re.compile(r'Lower summation limit does not evaluate to an integer\.$'), 'MLowerInt'),
    (re.compile(r'Upper summation limit does not evaluate to an integer\.$'), 'MUpperInt'),
    (re.compile(r'Cannot sum from -infty to -infty\.$'), 'MNegInf'),
    (re.compile(r'Cannot sum from infty to infty\.$'), 'MPosInf'),
]


# ================================================================================================
# running the implementation with its oracles recorded
# ================================================================================================
def lib():
    import mitxgraders.formulagrader.integralgrader as ig
    import mitxgraders.helpers.math_helpers as mh
    import mitxgraders.exceptions as ex
    import mitxgraders.helpers.calc.exceptions as cex
    return ig, mh, ex, cex


def err_tag(e):
    """exception -> constructor of Verif.Lib.SummationPy.err (as Coq text)"""
    ig, mh, ex, cex = lib()
    if isinstance(e, ex.ConfigError):
        return 'EConfig'
    if isinstance(e, ex.MissingInput):
        return 'EMissing'
    if isinstance(e, ig.SummationError):
        for rx, tag in SUM_MESSAGES:
            if rx.search(str(e)):
                return '(ESummation %s)' % tag
        return '(ESummation MUnknown)'
    if isinstance(e, ex.InvalidInput):
        return 'EInvalid'
    if isinstance(e, cex.CalcError):
        return 'ECalc'
    if type(e) is ex.StudentFacingError:
        return 'EGeneric'
    if isinstance(e, ex.MITxError):
        return 'EMitxOther'
    return 'EOther'


def is_student_facing(e):
    ig, mh, ex, cex = lib()
    return isinstance(e, ex.StudentFacingError)


class Recorder(object):
    """Wraps, for the duration of one grader call, the leaves the model abstracts."""

    def __init__(self):
        self.parses = []      # (expr, 'ok' | err tag, uses_fact, uses_factorial)
        self.valid = []       # (name, ('ret', bool) | ('exc', tag))
        self.esums = []       # one dict per evaluate_sum call
        self.cur = None
        self.in_eval = 0      # depth inside calc.evaluator (its own check_scope is part of the evaluator oracle)

    def __enter__(self):
        ig, mh, ex, cex = lib()
        from mitxgraders.helpers.calc.expressions import MathExpression
        self.mexpr = MathExpression
        self.saved = (ig.evaluator, ig.parse, mh.parse, ig.is_valid_variable_name, ig.SumGrader.evaluate_sum)
        self.saved_cs = MathExpression.check_scope
        rec = self
        o_eval, o_parse_ig, o_parse_mh, o_valid, o_esum = self.saved
        o_cs = self.saved_cs

        def check_scope(self_, variables, functions, suffixes):
            cur = rec.cur
            if rec.in_eval or cur is None:
                return o_cs(self_, variables, functions, suffixes)
            entry = {'expr': getattr(self_, 'expression', None), 'scope': list(variables.keys())}
            try:
                out = o_cs(self_, variables, functions, suffixes)
            except Exception as e:
                entry['out'] = ('exc', e)
                cur['scope_checks'].append(entry)
                raise
            entry['out'] = ('ret', None)
            cur['scope_checks'].append(entry)
            return out

        def parse_wrap(orig):
            def parse(formula):
                try:
                    out = orig(formula)
                except Exception as e:
                    rec.parses.append((formula, err_tag(e), False, False))
                    raise
                fu = out.functions_used
                rec.parses.append((formula, 'ok', 'fact' in fu, 'factorial' in fu))
                return out
            return parse

        def evaluator(formula, *a, **k):
            variables = k.get('variables', a[0] if a else None)
            allow_inf = k.get('allow_inf', False)
            keys = list(variables.keys()) if isinstance(variables, dict) else []
            entry = {'expr': formula, 'allow_inf': bool(allow_inf), 'scope': keys}
            cur = rec.cur
            if cur is not None and not allow_inf:
                entry['n'] = variables.get(cur['var']) if isinstance(variables, dict) else None
            rec.in_eval += 1
            try:
                out = o_eval(formula, *a, **k)
            except Exception as e:
                entry['out'] = ('exc', e)
                if cur is not None:
                    cur['evals'].append(entry)
                raise
            finally:
                rec.in_eval -= 1
            entry['out'] = ('ret', out[0])
            entry['funcs'] = set(out[1].functions_used)
            if cur is not None:
                cur['evals'].append(entry)
            return out

        def valid(varname):
            try:
                out = o_valid(varname)
            except Exception as e:
                rec.valid.append((varname, ('exc', err_tag(e))))
                raise
            rec.valid.append((varname, ('ret', bool(out))))
            return out

        def evaluate_sum(self_, summand_str, lower_str, upper_str, summation_var, varscope=None, funcscope=None):
            cur = {'k': len(rec.esums), 'summand': summand_str, 'lower': lower_str, 'upper': upper_str,
                   'var': summation_var, 'scope': list(varscope.keys()) if varscope is not None else [],
                   'values': dict(varscope) if varscope is not None else {}, 'evals': [], 'scope_checks': []}
            rec.esums.append(cur)
            rec.cur = cur
            try:
                out = o_esum(self_, summand_str, lower_str, upper_str, summation_var, varscope=varscope, funcscope=funcscope)
            except Exception as e:
                cur['result'] = ('exc', e)
                raise
            finally:
                rec.cur = None
            cur['result'] = ('ret', out[0])
            return out

        ig.evaluator = evaluator
        ig.parse = parse_wrap(o_parse_ig)
        mh.parse = parse_wrap(o_parse_mh)
        ig.is_valid_variable_name = valid
        ig.SumGrader.evaluate_sum = evaluate_sum
        MathExpression.check_scope = check_scope
        return self

    def __exit__(self, *a):
        ig, mh, ex, cex = lib()
        ig.evaluator, ig.parse, mh.parse, ig.is_valid_variable_name, ig.SumGrader.evaluate_sum = self.saved
        self.mexpr.check_scope = self.saved_cs
        return False


def ref_fact(x):
    return math.gamma(x + 1)


def build_grader(cfg):
    """cfg: JSON-able description -> SumGrader instance (may raise: the constructor validates input_positions)"""
    from mitxgraders import SumGrader, RealInterval, DiscreteSet
    kw = {'answers': dict(zip(FIELDS, cfg['answers']))}
    if cfg.get('positions') is not None:
        kw['input_positions'] = {k: v for k, v in zip(FIELDS, cfg['positions']) if v is not None or cfg.get('explicit_none')}
    for k in ('even_odd', 'infty_val', 'infty_val_fact', 'samples', 'tolerance', 'variables', 'instructor_vars', 'failable_evals',
              'whitelist', 'blacklist', 'required_functions'):
        if k in cfg:
            kw[k] = cfg[k]
    if 'sample_from' in cfg:
        sf = {}
        for name, d in cfg['sample_from'].items():
            sf[name] = RealInterval([d[1], d[2]]) if d[0] == 'real' else DiscreteSet(tuple(d[1]))
        kw['sample_from'] = sf
    if cfg.get('user_fact'):
        kw['user_functions'] = {'fact': ref_fact}
        kw['suppress_warnings'] = True
    if 'user_functions' in cfg:
        import numpy as np
        from mitxgraders import RandomFunction, SpecificFunctions
        make = {'square': lambda: (lambda x: x * x), 'random': lambda: RandomFunction(),
                'specific': lambda: SpecificFunctions([np.sin, np.cos])}
        kw.setdefault('user_functions', {}).update({name: make[k]() for name, k in cfg['user_functions'].items()})
    for k in ('user_constants', 'numbered_vars', 'metric_suffixes'):
        if k in cfg:
            kw[k] = cfg[k]
    return SumGrader(**kw)


# defaults stated in SumGrader's docstring ("default changed to ...", "(default 1e3)", the input_positions table)
DOCUMENTED_DEFAULTS = {'tolerance': 1e-12, 'samples': 2, 'infty_val': 1e3, 'infty_val_fact': 80, 'even_odd': 0,
                       'input_positions': {'lower': 1, 'upper': 2, 'summand': 3, 'summation_variable': 4},
                       'failable_evals': 0, 'instructor_vars': [], 'variables': []}


def case_seed(key):
    import hashlib
    return int(hashlib.sha256(key.encode()).hexdigest()[:8], 16)


def run_case(spec):
    """Runs SumGrader(cfg)(None, inputs).  Returns a dict with the outcome and everything recorded."""
    import numpy as np
    np.random.seed(case_seed(spec['key']))
    random.seed(case_seed(spec['key']))
    out = {'spec': spec, 'stage': 'construct'}
    st, g = core.guarded(build_grader, spec['cfg'])
    if st != 'ret':
        out['outcome'] = (st, g)
        out['rec'] = Recorder()
        return out
    out['stage'] = 'call'
    out['reserved'] = list(g.functions.keys()) + list(g.random_funcs.keys()) + list(g.constants.keys())
    out['default_scope'] = sorted(set(g.constants.keys()) | set(g.config['variables']))
    out['true_positions'] = dict(g.true_input_positions)
    out['config_view'] = {k: g.config.get(k) for k in DOCUMENTED_DEFAULTS}
    inputs = spec['inputs']
    with Recorder() as rec:
        st, r = core.guarded(g, None, copy.deepcopy(inputs))
    out['outcome'] = (st, r)
    out['rec'] = rec
    return out


# ================================================================================================
# Coq emission
# ================================================================================================
def q(x):
    """exact rational literal.  Dyadic rationals with a large denominator (floats) are written D m (-k) = m / 2^k:
    Coq's parser is quadratic in the length of a numeral and tiny floats have denominators of hundreds of digits."""
    fr = Fraction(x)
    if fr.denominator == 1:
        if abs(fr.numerator) < 10 ** 18:
            return '%d' % fr.numerator if fr.numerator >= 0 else '(%d#1)' % fr.numerator
        k = 0
        n = fr.numerator
        while n % 2 == 0:
            n //= 2
            k += 1
        return '(D %s %d)' % (zl(n), k)
    d = fr.denominator
    if d & (d - 1) == 0 and d > 2 ** 16:
        return '(D %s (-%d))' % (zl(fr.numerator), d.bit_length() - 1)
    return '(%d#%d)' % (fr.numerator, fr.denominator)


def zl(n):
    return '(%d)' % n if n < 0 else '%d' % n


def strl(s):
    return '[' + ';'.join('%d' % ord(c) for c in s) + ']%Z' if s else '(@nil Z)'


class Unencodable(Exception):
    pass


def pyv_term(v):
    """value returned by the evaluator for a limit -> pyv"""
    import numpy as np
    if isinstance(v, (bool, np.bool_)):
        raise Unencodable('bool limit')
    if isinstance(v, (complex, np.complexfloating)):
        return 'PCplx'
    if isinstance(v, (int, np.integer)):
        return '(PNum (XFin %s))' % q(int(v))
    if isinstance(v, (float, np.floating)):
        v = float(v)
        if v != v:
            return '(PNum XNaN)'
        if v == float('inf'):
            return '(PNum XPInf)'
        if v == -float('inf'):
            return '(PNum XNInf)'
        return '(PNum (XFin %s))' % q(v)
    if isinstance(v, np.ndarray):
        return 'PArr'
    raise Unencodable('limit value %r' % (type(v),))


def flat_value(v):
    """summand / sum value -> list of Fractions: the real parts of all entries, then the imaginary parts"""
    import numpy as np

    def parts(x):
        if isinstance(x, (bool, np.bool_)):
            raise Unencodable('bool value')
        if isinstance(x, (int, np.integer)):
            return Fraction(int(x)), Fraction(0)
        if isinstance(x, (float, np.floating)):
            x = complex(float(x), 0.0)
        if isinstance(x, (complex, np.complexfloating)):
            x = complex(x)
            for p_ in (x.real, x.imag):
                if p_ != p_ or p_ in (float('inf'), -float('inf')):
                    raise Unencodable('non-finite value')
            return Fraction(x.real), Fraction(x.imag)
        raise Unencodable('value %r' % (type(x),))
    if isinstance(v, np.ndarray):
        ps = [parts(x.item() if hasattr(x, 'item') else x) for x in np.asarray(v).reshape(-1)]
    else:
        ps = [parts(v)]
    return [a for a, _ in ps] + [b for _, b in ps]


def trimmed(fs):
    fs = list(fs)
    while fs and fs[-1] == 0:
        fs.pop()
    return fs


def qlist(fs):
    """trailing zeros are dropped: the model pads with zeros (and [] is the integer 0 that sum() starts from)"""
    return '[' + ';'.join(q(f) for f in trimmed(fs)) + ']'


def tol_term(tol):
    if isinstance(tol, str):
        return '(TolPct %s)' % q(Fraction(tol[:-1]) / 100)
    return '(TolAbs %s)' % q(Fraction(tol))


def outcome_term(st, r):
    """observed final outcome -> `outcome bool` term, or None when it cannot be expressed"""
    if st == 'ret':
        if isinstance(r, dict) and r.get('ok') is True:
            return '(Ret true)'
        if isinstance(r, dict) and r.get('ok') is False:
            return '(Ret false)'
        return None
    if st == 'exc':
        t = err_tag(r)
        if t in ('EMitxOther', '(ESummation MUnknown)'):
            return None
        if t == 'EOther':
            return None          # nothing but library errors may leave __call__ (C02); never produced by `grade`
        return '(@Raise bool %s)' % t
    return None


HEADER = ('From Coq Require Import ZArith QArith Qabs List Bool.\n'
          'From Verif.Lib Require Import QRound SummationPy.\n'
          'From Verif.Model Require Import Summation.\n'
          'From Verif.Gen Require Summation.\nImport ListNotations.\nOpen Scope Q_scope.\n')

AGREE_DEFS = r'''
(* m * 2^e *)
Definition D (m e : Z) : Q := if (0 <=? e)%Z then inject_Z (m * 2 ^ e) else Qmake m (Z.to_pos (2 ^ (- e))).
Inductive lim_entry := L (expr : str) (scope : list str) (i : nat) (out : outcome pyv).
(* summand evaluations of one evaluate_sum call at n = start, start+step, ... (the points range() produced) *)
Inductive term_entry := T (i : nat) (expr var : str) (scope : list str) (start step : Z) (outs : list (outcome (list Q))).
Inductive parse_entry := P (expr : str) (out : outcome unit) (fact factorial : bool).
(* parse(summand).check_scope(scope + {var: 0}, ...) inside evaluate_sum *)
Inductive scope_entry := SC (expr var : str) (scope : list str) (out : outcome unit).
(* one evaluate_sum call of the implementation: who (true = author), sample, evaluation points in order,
   whether the call returned, and the sum it returned *)
Inductive esum_obs := E (author : bool) (i : nat) (start step : Z) (count : nat) (completed : bool) (value : list Q) (scale : Q).

Record ccase := mkCase {
  k_cfg : config; k_tol : tolerance; k_inputs : list str;
  k_parse : list parse_entry; k_valid : list (str * outcome bool);
  k_lim : list lim_entry; k_scope : list scope_entry; k_term : list term_entry;
  k_obs : option (outcome bool);        (* None: the implementation's outcome is not expressible / not compared *)
  k_skip_verdict : bool;                (* verdict within the guard band of the tolerance *)
  k_esums : list esum_obs
}.

Definition same_names (a b : list str) : bool := if forallb (fun x => mem x b) a then forallb (fun x => mem x a) b else false.

Fixpoint find_parse (t : list parse_entry) (s : str) : option parse_entry :=
  match t with [] => None | (P e _ _ _ as p) :: r => if str_eqb e s then Some p else find_parse r s end.
Definition o_parses (c : ccase) (s : str) : outcome unit :=
  match find_parse (k_parse c) s with Some (P _ o _ _) => o | None => Raise EUnrecorded end.
Definition o_fact (c : ccase) (s : str) : bool :=
  match find_parse (k_parse c) s with Some (P _ _ b _) => b | None => false end.
Definition o_factorial (c : ccase) (s : str) : bool :=
  match find_parse (k_parse c) s with Some (P _ _ _ b) => b | None => false end.
Fixpoint o_valid_go (t : list (str * outcome bool)) (s : str) : outcome bool :=
  match t with [] => Raise EUnrecorded | (e, o) :: r => if str_eqb e s then o else o_valid_go r s end.
Fixpoint o_lim_go (t : list lim_entry) (s : str) (sc : list str) (i : nat) : outcome pyv :=
  match t with
  | [] => Raise EUnrecorded
  | L e sc' i' o :: r =>
      if Nat.eqb i i' then (if str_eqb e s then (if same_names sc sc' then o else o_lim_go r s sc i) else o_lim_go r s sc i)
      else o_lim_go r s sc i
  end.
Fixpoint o_scope_go (t : list scope_entry) (s : str) (sc : list str) (v : str) : outcome unit :=
  match t with
  | [] => Raise EUnrecorded
  | SC e v' sc' o :: r =>
      if str_eqb e s then (if str_eqb v v' then (if same_names sc sc' then o else o_scope_go r s sc v) else o_scope_go r s sc v)
      else o_scope_go r s sc v
  end.
Fixpoint o_term_go (t : list term_entry) (s : str) (sc : list str) (v : str) (n : Z) (i : nat) : outcome (list Q) :=
  match t with
  | [] => Raise EUnrecorded
  | T i' e v' sc' start step outs :: r =>
      if Nat.eqb i i' then
        (if (start <=? n)%Z then
          (if ((n - start) mod step =? 0)%Z then
            (if str_eqb e s then
              (if str_eqb v v' then
                (if same_names sc sc' then
                   match nth_error outs (Z.to_nat ((n - start) / step)) with
                   | Some o => o
                   | None => o_term_go r s sc v n i
                   end
                 else o_term_go r s sc v n i)
               else o_term_go r s sc v n i)
             else o_term_go r s sc v n i)
           else o_term_go r s sc v n i)
         else o_term_go r s sc v n i)
      else o_term_go r s sc v n i
  end.

Definition m_grade (c : ccase) : outcome bool :=
  grade [] qv_add (qv_within (k_tol c)) (o_parses c) (o_fact c) (o_factorial c)
        (o_lim_go (k_lim c)) (o_scope_go (k_scope c)) (o_term_go (k_term c)) (o_valid_go (k_valid c)) (k_cfg c) (k_inputs c).

Definition m_plan (c : ccase) (author : bool) (fields : list str) (i : nat) : outcome (Z * Z * Z) :=
  evaluate_sum_plan (o_parses c) (o_fact c) (o_factorial c) (o_lim_go (k_lim c)) (o_scope_go (k_scope c)) (k_cfg c)
    (f_summand fields) (f_lower fields) (f_upper fields) (f_var fields)
    (if author then c_scope (k_cfg c) else student_scope (k_cfg c)) i.

Definition m_sum (c : ccase) (author : bool) (fields : list str) (i : nat) : outcome (list Q) :=
  evaluate_fields [] qv_add (o_parses c) (o_fact c) (o_factorial c) (o_lim_go (k_lim c)) (o_scope_go (k_scope c)) (o_term_go (k_term c))
    (k_cfg c) fields (if author then c_scope (k_cfg c) else student_scope (k_cfg c)) i.

Definition m_fields (c : ccase) : option (list str) :=
  match validate_input_positions (c_positions (k_cfg c)) with
  | Ret tp => match structure_input (k_cfg c) tp (k_inputs c) with Ret f => Some f | Raise _ => None end
  | Raise _ => None
  end.

Fixpoint zlist_eqb (a b : list Z) : bool :=
  match a, b with [] , [] => true | x :: a', y :: b' => Z.eqb x y && zlist_eqb a' b' | _, _ => false end.
Fixpoint zprefix (a b : list Z) : bool :=
  match a, b with [] , _ => true | x :: a', y :: b' => Z.eqb x y && zprefix a' b' | _, _ => false end.

Definition eps : Q := 1 # 1000000000.
Definition qv_close (tol : Q) (a b : list Q) : bool := forallb (fun x => Qle_bool (Qabs x) tol) (qv_sub a b).

(* the property's index set, written independently of the model: all k between the two limits (either order),
   an infinite limit replaced by +-cut, filtered by parity *)
Definition spec_indices (lo hi : pyv) (eo cut : Z) : option (list Z) :=
  let fin (p : pyv) : option (option Z * bool * bool) :=   (* (finite value, is +inf, is -inf) *)
    match p with
    | PNum (XFin x) => if (Qden x =? 1)%positive then Some (Some (Qnum x), false, false) else None
    | PNum XPInf => Some (None, true, false)
    | PNum XNInf => Some (None, false, true)
    | _ => None
    end in
  match fin lo, fin hi with
  | Some (a, ap, an), Some (b, bp, bn) =>
      if (ap && bp) || (an && bn) then None else
      let va := match a with Some z => z | None => if ap then cut else (- cut)%Z end in
      let vb := match b with Some z => z | None => if bp then cut else (- cut)%Z end in
      let lo' := Z.min va vb in
      let hi' := Z.max va vb in
      let all := map (fun k => (lo' + Z.of_nat k)%Z) (seq 0 (Z.to_nat (hi' - lo' + 1))) in
      Some (filter (fun k => match eo with 1%Z => Z.odd k | 2%Z => Z.even k | _ => true end) all)
  | _, _ => None
  end.

Definition z_of_pyv (p : pyv) : Z := match p with PNum (XFin x) => Qnum x | _ => 0%Z end.

(* model-side check of the REGENERATED plan against the index-set specification, on the limits of this call *)
Definition gen_plan_ok (c : ccase) (author : bool) (fields : list str) (i : nat) : bool :=
  let sc := if author then c_scope (k_cfg c) else student_scope (k_cfg c) in
  match o_lim_go (k_lim c) (f_lower fields) sc i, o_lim_go (k_lim c) (f_upper fields) sc i with
  | Ret lo, Ret hi =>
      let fact := o_fact c (f_lower fields) || o_fact c (f_upper fields) || o_fact c (f_summand fields)
                  || o_factorial c (f_lower fields) || o_factorial c (f_upper fields) || o_factorial c (f_summand fields) in
      let cut := if fact then c_infty_val_fact (k_cfg c) else c_infty_val (k_cfg c) in
      match spec_indices lo hi (z_of_pyv (c_even_odd (k_cfg c))) (z_of_pyv cut) with
      | Some want =>
          match Gen.Summation.gen_summation_plan lo hi (c_even_odd (k_cfg c)) cut with
          | Ret (a, b, d) => zlist_eqb (zrange a b d) want
          | Raise _ => false
          end
      | None => true
      end
  | _, _ => true
  end.

Definition esum_ok (c : ccase) (fields : list str) (o : esum_obs) : nat :=
  match o with
  | E author i start step count completed value scale =>
      let idx := map (fun j => (start + step * Z.of_nat j)%Z) (seq 0 count) in
      let f := if author then c_answers (k_cfg c) else fields in
      if negb (gen_plan_ok c author f i) then 5%nat else
      match m_plan c author f i with
      | Ret (a, b, d) =>
          let want := zrange a b d in
          if completed then
            if negb (zlist_eqb idx want) then 2%nat
            else match m_sum c author f i with
                 | Ret v => if qv_close (eps * scale) v value then 0%nat else 3%nat
                 | Raise _ => 4%nat
                 end
          else if zprefix idx want then 0%nat else 2%nat
      | Raise _ => match idx with [] => (if completed then 4%nat else 0%nat) | _ => 2%nat end
      end
  end.

Fixpoint first_nonzero (l : list nat) : nat :=
  match l with [] => 0%nat | 0%nat :: r => first_nonzero r | x :: _ => x end.

Definition err_eqb (a b : err) : bool :=
  match a, b with
  | EConfig, EConfig | EMissing, EMissing | EInvalid, EInvalid | ECalc, ECalc | EOther, EOther
  | EGeneric, EGeneric | EUnrecorded, EUnrecorded => true
  | ESummation m, ESummation m' =>
      match m, m' with
      | MConflict, MConflict | MComplex, MComplex | MLowerInt, MLowerInt | MUpperInt, MUpperInt
      | MNegInf, MNegInf | MPosInf, MPosInf => true
      | _, _ => false
      end
  | _, _ => false
  end.

(* 0 = agreement; 1 = final outcome differs; 2 = evaluation points differ; 3 = sum differs; 4 = model fails where
   the implementation returned; 5 = regenerated plan violates the index-set specification *)
Definition case_code (c : ccase) : nat :=
  let outcome_code :=
    match k_obs c with
    | None => 0%nat
    | Some obs =>
        match m_grade c, obs with
        | Ret a, Ret b => if k_skip_verdict c || Bool.eqb a b then 0%nat else 1%nat
        | Raise e, Raise e' => if err_eqb e e' then 0%nat else 1%nat
        | _, _ => 1%nat
        end
    end in
  match outcome_code with
  | 0%nat => match m_fields c with
             | Some f => first_nonzero (map (esum_ok c f) (k_esums c))
             | None => match k_esums c with [] => 0%nat | _ => 4%nat end
             end
  | x => x
  end.
Definition case_ok (c : ccase) : bool := Nat.eqb (case_code c) 0.
'''


# ================================================================================================
# one recorded run -> Coq case term
# ================================================================================================
class Names(object):
    """Strings are interned: the model only compares strings, tests `== ''` and `.strip() == ''`, and looks them up in
    the oracle tables, so every non-blank string is sent as a one-element list [100000 + id] (injective, not a
    whitespace code point), the empty string as [] and whitespace-only strings as their code points."""

    def __init__(self):
        self.strs, self.scopes = {}, {}

    def s(self, text):
        if text not in self.strs:
            self.strs[text] = 's%d' % len(self.strs)
        return self.strs[text]

    def sc(self, keys):
        k = tuple(keys)
        if k not in self.scopes:
            self.scopes[k] = 'sc%d' % len(self.scopes)
            for x in k:
                self.s(x)
        return self.scopes[k]

    def lets(self):
        out = []
        for j, (text, name) in enumerate(self.strs.items()):
            if text == '':
                lit = '(@nil Z)'
            elif text.strip() == '' or text in default_reserved():
                lit = strl(text)      # names of the header's default_reserved list keep their code points
            else:
                lit = '[%d]%%Z' % (100000 + j)
            out.append('let %s : str := %s in' % (name, lit))
        for keys, name in self.scopes.items():
            out.append('let %s : list str := [%s] in' % (name, ';'.join(self.strs[x] for x in keys)))
        return '\n   '.join(out)


def progression(ns):
    """[n0, n0+d, n0+2d, ...] -> (n0, d, len) or None"""
    if not ns:
        return (0, 1, 0)
    if len(ns) == 1:
        return (ns[0], 1, 1)
    d = ns[1] - ns[0]
    if d < 1 or any(b - a != d for a, b in zip(ns, ns[1:])):
        return None
    return (ns[0], d, len(ns))


def vec_add(a, b):
    if not a:
        return list(b)
    if not b:
        return list(a)
    if len(a) != len(b):
        raise Unencodable('terms of different shapes')
    return [x + y for x, y in zip(a, b)]


def as_inputs(inputs):
    return list(inputs) if isinstance(inputs, list) else [inputs]


def num_pyv(x):
    return '(PNum (XFin %s))' % q(Fraction(x))


_DEFAULT_RESERVED = None


def default_reserved():
    """names with a meaning in a default SumGrader (functions, constants): emitted once in the header"""
    global _DEFAULT_RESERVED
    if _DEFAULT_RESERVED is None:
        from mitxgraders import SumGrader
        g = SumGrader(answers=dict(zip(FIELDS, ['1', '2', 'n', 'n'])))
        _DEFAULT_RESERVED = list(g.functions.keys()) + list(g.random_funcs.keys()) + list(g.constants.keys())
    return _DEFAULT_RESERVED


def header():
    return (HEADER + 'Definition default_reserved : list str :=\n  [%s].\n' % ';\n   '.join(strl(x) for x in default_reserved())
            + AGREE_DEFS)


def case_term(run):
    """-> (Coq term | None, info dict)"""
    spec, rec = run['spec'], run['rec']
    cfg = spec['cfg']
    info = {'boundary': False}
    nm = Names()
    st, r = run['outcome']
    if st == 'timeout':
        return None, info
    positions = cfg['positions'] if cfg.get('positions') is not None else [1, 2, 3, 4]
    tol = cfg.get('tolerance', 1e-12)
    author_scope = None
    for e in rec.esums:
        if e['k'] % 2 == 0:
            author_scope = e['scope']
            break
    scope = author_scope if author_scope is not None else run.get('default_scope', [])
    reserved = run.get('reserved', [])
    try:
        parse_entries, seen = [], set()
        for expr, o, f1, f2 in rec.parses:
            if expr in seen:
                continue
            seen.add(expr)
            ot = '(Ret tt)' if o == 'ok' else '(Raise %s)' % o
            if o in ('EMitxOther', '(ESummation MUnknown)'):
                raise Unencodable('parse error class')
            parse_entries.append('P %s %s %s %s' % (nm.s(expr), ot, core.boollit(f1), core.boollit(f2)))
        valid_entries = []
        for name, (k, v) in rec.valid:
            valid_entries.append('(%s, %s)' % (nm.s(name), '(Ret %s)' % core.boollit(v) if k == 'ret' else '(Raise %s)' % v))
        lims, terms, esums, scopes = [], [], [], []
        sums = {}
        for e in rec.esums:
            i, author = e['k'] // 2, e['k'] % 2 == 0
            for sc_ in e.get('scope_checks', []):
                kind, val = sc_['out']
                if kind == 'ret':
                    ot = '(Ret tt)'
                else:
                    t = err_tag(val)
                    if t in ('EMitxOther', '(ESummation MUnknown)'):
                        raise Unencodable('scope check error class')
                    ot = '(Raise %s)' % t
                ent = 'SC %s %s %s %s' % (nm.s(e['summand']), nm.s(e['var']),
                                         nm.sc([x for x in sc_['scope'] if x != e['var']]), ot)
                if ent not in scopes:
                    scopes.append(ent)
            idx, acc, scale, outs, tscope, texpr = [], [], Fraction(1), [], None, None
            for ev_ in e['evals']:
                kind, val = ev_['out']
                if ev_['allow_inf']:
                    if kind == 'ret':
                        ot = '(Ret %s)' % pyv_term(val)
                    else:
                        t = err_tag(val)
                        if t in ('EMitxOther', '(ESummation MUnknown)'):
                            raise Unencodable('limit error class')
                        ot = '(Raise %s)' % t
                    ent = 'L %s %s %d %s' % (nm.s(ev_['expr']), nm.sc(ev_['scope']), i, ot)
                    if ent not in lims:
                        lims.append(ent)
                else:
                    n = ev_.get('n')
                    if not isinstance(n, int) or isinstance(n, bool):
                        raise Unencodable('summation variable bound to %r' % (n,))
                    sc = tuple(x for x in ev_['scope'] if x != e['var'])
                    if tscope is None:
                        tscope, texpr = sc, ev_['expr']
                    elif (tscope, texpr) != (sc, ev_['expr']):
                        raise Unencodable('summand evaluations of one call differ in scope or text')
                    if kind == 'ret':
                        fl = flat_value(val)
                        acc = vec_add(acc, fl)
                        scale += sum(abs(x) for x in fl)
                        ot = '(Ret %s)' % qlist(fl)
                    else:
                        t = err_tag(val)
                        if t in ('EMitxOther', '(ESummation MUnknown)'):
                            raise Unencodable('term error class')
                        ot = '(Raise %s)' % t
                    idx.append(n)
                    outs.append(ot)
            pr = progression(idx)
            if pr is None:
                raise Unencodable('evaluation points are not an increasing arithmetic progression: %r' % (idx[:8],))
            if idx:
                ent = 'T %d %s %s %s %s %s [%s]' % (i, nm.s(texpr), nm.s(e['var']), nm.sc(tscope), zl(pr[0]), zl(pr[1]), '; '.join(outs))
                if ent not in terms:
                    terms.append(ent)
            completed = e['result'][0] == 'ret'
            value = flat_value(e['result'][1]) if completed else []
            if completed:
                sums[(i, author)] = (acc, value, scale)
            esums.append('E %s %d %s %s %d %s %s %s' % (core.boollit(author), i, zl(pr[0]), zl(pr[1]), pr[2],
                                                       core.boollit(completed), qlist(value), q(Fraction(float(scale)))))
        # guard band for the verdict
        skip = False
        shapes_ok = True
        for (i, author), (acc, value, scale) in sums.items():
            if not author or (i, False) not in sums:
                continue
            a, av, asc = acc, value, scale
            s_, sv, ssc = sums[(i, False)]
            if (len(a) or 2) != (len(s_) or 2):
                shapes_ok = False      # number against array (an empty sum is the integer 0): the comparer's shape errors are not modelled
                continue
            n_ = max(len(a), len(s_))
            a2 = list(a) if a else [Fraction(0)] * n_
            s2 = list(s_) if s_ else [Fraction(0)] * n_
            d2 = sum((x - y) ** 2 for x, y in zip(a2, s2))
            na2 = sum(x * x for x in a2)
            T2 = (Fraction(tol[:-1]) / 100) ** 2 * na2 if isinstance(tol, str) else Fraction(tol) ** 2
            d, T = math.sqrt(d2), math.sqrt(T2)
            slack = 1e-9 * float(asc + ssc) + 1e-9 * T
            if d2 == 0:
                if av != sv and T <= slack:
                    skip = True
            elif abs(d - T) <= slack:
                skip = True
        obs = outcome_term(st, r)
        if not shapes_ok:
            obs = None
        info['boundary'] = skip
        inputs = as_inputs(spec['inputs'])
        cfg_term = ('(mkConfig [%s] [%s] [%s] %s %s %s %d %d %s %s)' % (
            ';'.join('None' if p is None else '(Some %s%%Z)' % zl(p) for p in positions),
            ';'.join(nm.s(a) for a in cfg['answers']),
            ';'.join(nm.s(v) for v in cfg.get('instructor_vars', [])),
            num_pyv(cfg.get('even_odd', 0)), num_pyv(cfg.get('infty_val', 1e3)), num_pyv(cfg.get('infty_val_fact', 80)),
            cfg.get('samples', 2), cfg.get('failable_evals', 0), nm.sc(scope),
            'default_reserved' if reserved == default_reserved() else '[%s]' % ';'.join(nm.s(x) for x in reserved)))
        body = ('mkCase %s %s [%s]\n     [%s]\n     [%s]\n     [%s]\n     [%s]\n     [%s]\n     %s %s\n     [%s]' % (
            cfg_term, tol_term(tol), ';'.join(nm.s(x) for x in inputs),
            '; '.join(parse_entries), '; '.join(valid_entries), ';\n      '.join(lims), '; '.join(scopes), ';\n      '.join(terms),
            'None' if obs is None else '(Some %s)' % obs, core.boollit(skip), ';\n      '.join(esums)))
    except Unencodable as e:
        info['unencodable'] = str(e)
        return None, info
    return '(%s\n   %s)' % (nm.lets(), body), info


# ================================================================================================
# case generation (everything derives from the seed)
# ================================================================================================
VAR_NAMES = ['n', 'k', 'm', 't', 'idx', 'n1', 'k_2', "n'", 'q', 'r_']
TOLS = [None, None, 0, 1e-6, 0.01, 0.5, '0.01%', '1%', '10%']
CUTS = [20, 30, 40, 51]


def lim_value(l, cut):
    """('int', v) | ('inf', s) -> integer after replacing infinity by the cutoff"""
    return l[1] if l[0] == 'int' else l[1] * cut


def ref_indices(lo, hi, eo, cut):
    """the property's index set: all integers between the limits (either order), filtered by parity"""
    a, b = lim_value(lo, cut), lim_value(hi, cut)
    a, b = min(a, b), max(a, b)
    return [k for k in range(a, b + 1) if eo == 0 or (eo == 1 and k % 2 == 1) or (eo == 2 and k % 2 == 0)]


def render_limit(rng, l, variables):
    if l[0] == 'inf':
        return 'infty' if l[1] > 0 else '-infty'
    v = l[1]
    r = rng.random()
    if r < 0.6:
        return '%d' % v
    if r < 0.7:
        return '%d.0' % v
    if r < 0.8:
        return '%d+2' % (v - 2)
    if r < 0.9 and variables:
        return '%s-%s+(%d)' % (variables[0], variables[0], v)
    return '(%d)*1' % v


def pick_env(rng, exact):
    r = rng.random()
    variables = [] if r < 0.35 else (['x'] if r < 0.8 else ['x', 'y'])
    cfg = {}
    if variables:
        cfg['variables'] = list(variables)
        if exact:
            cfg['sample_from'] = {v: ('discrete', [2, 3, 5, -1, 4]) for v in variables}
        elif rng.random() < 0.5:
            cfg['sample_from'] = {v: ('real', 1, 3) for v in variables}
    return variables, cfg


def pick_positions(rng, full_prob=0.6):
    """a subset of the four fields in a random order: list of 4 (1-based position or None)"""
    if rng.random() < full_prob:
        return None
    entered = [f for f in range(4) if rng.random() < 0.6]
    order = list(entered)
    rng.shuffle(order)
    pos = [None] * 4
    for p, f in enumerate(order):
        pos[f] = p + 1
    return pos


def inputs_from(pos, fields):
    """fields: the four strings the student would type; pos: positions -> the input list"""
    if pos is None:
        return list(fields)
    n = sum(1 for p in pos if p is not None)
    out = [None] * n
    for f, p in enumerate(pos):
        if p is not None:
            out[p - 1] = fields[f]
    return out


def transform(rng, author, entered, eo, variables, infinite, tiny=False):
    """author = (lo, hi, tree, var) -> student's (lo, hi, tree, var), label.  Only entered fields may differ."""
    lo, hi, tree, var = author
    e_lo, e_hi, e_sum, e_var = entered
    label = []
    if e_var and e_sum and rng.random() < 0.6:
        var = rng.choice([v for v in VAR_NAMES if v not in variables])
        label.append('rename')
    ops = []
    if e_lo and e_hi:
        ops.append('swap')
    if e_lo and e_hi and e_sum:
        ops += ['shift', 'shift', 'reverse']
    if e_sum:
        ops += ['rewrite', 'perturb-summand', 'scale']
    if e_lo or e_hi:
        ops.append('perturb-limit')
    if tiny and e_sum:
        # near misses: relative size between 1e-11 and 1e-5, far above an absolute 1e-12 and far below 0.01%
        ops += ['tiny-scale', 'tiny-scale', 'tiny-scale', 'tiny-component', 'tiny-add']
    ops.append('same')
    for _ in range(rng.choice([1, 1, 2])):
        op = rng.choice(ops)
        label.append(op)
        if op == 'swap':
            lo, hi = hi, lo
        elif op == 'shift':
            s = rng.choice([-3, -2, -1, 1, 2, 3, 4]) if eo == 0 or rng.random() < 0.3 else rng.choice([-4, -2, 2, 4])
            sh = lambda l: ('int', l[1] + s) if l[0] == 'int' else l
            lo, hi = sh(lo), sh(hi)
            tree = sx.subst(tree, ('sub', ('n',), ('c', Fraction(s))))
        elif op == 'reverse':
            rv = lambda l: ('int', -l[1]) if l[0] == 'int' else ('inf', -l[1])
            lo, hi = rv(hi), rv(lo)
            tree = sx.subst(tree, ('neg', ('n',)))
        elif op == 'rewrite':
            r = rng.random()
            if r < 0.4:
                tree = ('add', tree, ('sub', ('n',), ('n',)))
            elif r < 0.7:
                tree = ('divc', ('mul', ('c', Fraction(2)), tree), Fraction(2))
            else:
                tree = ('sub', ('mul', ('c', Fraction(2)), tree), tree)
        elif op == 'perturb-summand':
            tree = ('add', tree, ('c', Fraction(rng.choice([1, -1, 2, 1]), rng.choice([1, 2, 4]))))
        elif op == 'scale':
            tree = ('mul', ('c', rng.choice([Fraction(11, 10), Fraction(21, 20), Fraction(9, 10), Fraction(101, 100),
                                              Fraction(1001, 1000), Fraction(3, 2), Fraction(221, 200), Fraction(221, 200),
                                              Fraction(10101, 10000), Fraction(10101, 10000), Fraction(200, 221)])), tree)
        elif op == 'tiny-scale':
            tree = ('mul', ('c', 1 + Fraction(1, 2 ** rng.choice([17, 20, 20, 24, 30, 36]))), tree)
        elif op == 'tiny-add':
            eps_ = ('c', Fraction(rng.choice([1, -1]), 2 ** rng.choice([17, 20, 24, 30])))
            tree = ('vec', tuple(('add', x, eps_) for x in tree[1])) if tree[0] == 'vec' else ('add', tree, eps_)
        elif op == 'tiny-component':
            eps_ = ('c', Fraction(1, 2 ** rng.choice([17, 20, 24])))
            if tree[0] == 'vec':
                j = rng.randrange(len(tree[1]))
                tree = ('vec', tuple(('add', x, eps_) if k_ == j else x for k_, x in enumerate(tree[1])))
            else:
                tree = ('add', tree, ('mul', eps_, ('n',)))
        elif op == 'perturb-limit':
            which = rng.choice([w for w, e in (('lo', e_lo), ('hi', e_hi)) if e])
            d = rng.choice([-2, -1, 1, 2])
            if which == 'lo' and lo[0] == 'int':
                lo = ('int', lo[1] + d)
            elif which == 'hi' and hi[0] == 'int':
                hi = ('int', hi[1] + d)
    return (lo, hi, tree, var), '+'.join(label)


def make_pool(rng, size):
    """summand pool: (exact, variables, cfg fragment, tree); reused across the grid so that the parser cache is hit"""
    pool = []
    for _ in range(size):
        exact = rng.random() < 0.75
        variables, cfg = pick_env(rng, exact)
        kind = rng.choice(['real', 'real', 'complex', 'vector'])
        pool.append((exact, variables, cfg, sx.gen_summand(rng, kind, variables, exact)))
    return pool


def value_case(rng, key, a, b, eo, tier, infinite=None, pool=None, cutoff=None):
    """cutoff: a small infty_val (finite limits may lie far beyond it: the cutoff only replaces infinite limits)"""
    exact = rng.random() < 0.75 and infinite is None
    variables, cfg = pick_env(rng, exact)
    kind = rng.choice(['real', 'real', 'complex', 'vector'])
    pooled = None
    if pool is not None and infinite is None:
        pooled = rng.choice(pool)
        exact, variables, cfg = pooled[0], pooled[1], copy.deepcopy(pooled[2])
    avar = rng.choice(VAR_NAMES[:6])
    cut = 1000
    if infinite is None:
        lo, hi = ('int', a), ('int', b)
        tree = pooled[3] if pooled else sx.gen_summand(rng, kind, variables, exact)
        if cutoff is not None:
            cfg['infty_val'] = cutoff
            if rng.random() < 0.4:
                # with a factorial in the summand the cutoff in force is infty_val_fact
                cfg['user_fact'] = True
                cfg['infty_val_fact'] = rng.choice([6, 10])
                tree = ('mul', ('fact0',), tree)
    else:
        direction, fin = infinite
        cut = rng.choice(CUTS)
        if direction == 0:
            lo, hi = ('inf', -1), ('inf', 1)
            # decays geometrically in both directions
            tree = ('pow', ('c', Fraction(1, 2)), ('mul', ('n',), ('n',)))
            if variables and rng.random() < 0.5:
                tree = ('mul', ('var', variables[0]), tree)
        elif direction > 0:
            lo, hi = ('int', fin), ('inf', 1)
            tree = sx.gen_geometric(rng, variables, 1)
        else:
            lo, hi = ('inf', -1), ('int', fin)
            tree = sx.gen_geometric(rng, variables, -1)
        if rng.random() < 0.5:
            lo, hi = hi, lo
        cfg['infty_val'] = cut if rng.random() < 0.7 else float(cut)
        if rng.random() < 0.35:
            # a user-supplied factorial (scipy is absent): the cutoff switches to infty_val_fact for whoever uses it
            cfg['user_fact'] = True
            cfg['infty_val_fact'] = rng.choice([12, 16, 25])
            if rng.random() < 0.5:
                tree = ('mul', ('fact0',), tree)
    pos = pick_positions(rng)
    entered = [True] * 4 if pos is None else [p is not None for p in pos]
    author = (lo, hi, tree, avar)
    tol = rng.choice(TOLS)       # None: tolerance not given (documented default: 1e-12, absolute)
    if infinite is not None and tol in (None, 0):
        tol = rng.choice([1e-6, '0.01%', '1%'])
    student, label = transform(rng, author, entered, eo, variables, infinite is not None,
                               tiny=tol in (None, 1e-6, '0.01%') and rng.random() < 0.7)
    if cfg.get('user_fact') and entered[2] and rng.random() < 0.5:
        student = (student[0], student[1], ('mul', student[2], ('fact0',)), student[3])
        label += '+fact'
    cfg['answers'] = [render_limit(rng, lo, variables), render_limit(rng, hi, variables), sx.render(tree, avar), avar]
    if pos is not None:
        cfg['positions'] = pos
    if eo or rng.random() < 0.3:
        cfg['even_odd'] = eo
    if tol is not None:
        cfg['tolerance'] = tol
    if rng.random() < 0.75:      # otherwise samples is not given (documented default: 2)
        cfg['samples'] = rng.choice([1, 1, 1, 2, 2, 3])
    fields = [render_limit(rng, student[0], variables), render_limit(rng, student[1], variables),
              sx.render(student[2], student[3]), student[3]]
    meta = {'author': author, 'student': student, 'eo': eo, 'cut': cut, 'cut_fact': cfg.get('infty_val_fact', 80), 'tol': 1e-12 if tol is None else tol,
            # float evaluation is exact only if the transformations kept every constant dyadic (a factor such as
            # 10101/10000 is rounded: an exactly vanishing sum then differs from 0 by rounding, which matters at tolerance 0)
            'exact': bool(exact and sx.dyadic(tree) and sx.dyadic(student[2])), 'label': label, 'variables': variables}
    return {'key': key, 'kind': 'value', 'cfg': cfg, 'inputs': inputs_from(pos, fields), 'meta': meta}


BASE_ANSWERS = ['1', '4', 'n^2+x', 'n']


def student_error_cases(rng, count):
    """student submissions the property says must raise a student-facing error"""
    out = []
    probes = []
    for bad in ['1/2', '2.5', '7/3', '-0.5', 'pi', 'x/7+0.01']:
        probes += [('noninteger-limit', 0, bad), ('noninteger-limit', 1, bad)]
    for bad in ['i', '1+i', '2*j', '3-2*i', 'sqrt(-4)']:
        probes += [('complex-limit', 0, bad), ('complex-limit', 1, bad)]
    for bad in ['x', 'pi', 'e', 'i', 'j', 'infty', 'sin', 'cos', 'exp', 'sqrt', 'fact', 'c']:
        probes.append(('dummy-has-meaning', 3, bad))
    for f in range(4):
        probes.append(('blank-field', f, ''))
    for f in range(3):
        probes.append(('instructor-var', f, None))
    probes += [('same-infinities', None, 'infty'), ('same-infinities', None, '-infty')]
    for j in range(count):
        what, field, bad = probes[j % len(probes)]
        eo = rng.choice([0, 0, 1, 2])
        lo, hi = rng.randint(-6, 3), rng.randint(4, 9)
        cfg = {'answers': ['%d' % lo, '%d' % hi, 'n^2+x+c*0', 'n'], 'variables': ['x', 'c'], 'instructor_vars': ['c'],
               'samples': rng.choice([1, 2])}
        if eo:
            cfg['even_odd'] = eo
        var = rng.choice(['n', 'k', 't'])
        fields = ['%d' % lo, '%d' % hi, '%s^2+x' % var, var]
        pos = pick_positions(rng, 0.5)
        if what == 'same-infinities':
            fields[0] = fields[1] = bad
            need = [0, 1]
        elif what == 'instructor-var':
            fields[field] = {0: '%d+c-c' % lo, 1: '%d+0*c' % hi, 2: '%s^2+x+c-c' % var}[field]
            need = [field] + ([3] if field == 2 else [])
        elif what == 'dummy-has-meaning':
            fields[3] = bad
            fields[2] = '%s^2' % bad if bad not in ('sin', 'cos', 'exp', 'sqrt', 'fact') else '2'
            need = [2, 3]
        else:
            fields[field] = bad
            need = [field]
        if var != 'n' and 3 not in need:
            need = need + [2, 3]
        if pos is not None:
            for f in need:
                if pos[f] is None:
                    pos[f] = max([p for p in pos if p is not None] + [0]) + 1
            if var != 'n' and (pos[2] is None or pos[3] is None):
                pos = None
        out.append({'key': 'serr:%d:%s:%s:%r' % (j, what, field, bad), 'kind': 'student-error', 'cfg': dict(cfg, **({'positions': pos} if pos else {})),
                    'inputs': inputs_from(pos, fields),
                    'meta': {'what': what, 'field': field, 'bad': bad, 'fields': fields, 'lo': lo, 'hi': hi, 'eo': eo}})
    return out


NAME_KINDS = [
    # (kind, name, has a meaning in the problem)
    ('declared variable', 'x', True), ('instructor variable', 'c', True), ('numbered-variable instance', 'a_{2}', True),
    ('default constant', 'pi', True), ('default constant', 'e', True), ('default constant', 'i', True),
    ('default constant', 'j', True), ('default constant', 'infty', True), ('user constant', 'tau', True),
    ('default function', 'sin', True), ('default function', 'exp', True), ('default function', 'fact', True),
    ('deterministic user function', 'h', True), ('RandomFunction user function', 'f', True),
    ('RandomFunction user function', 'g', True), ('SpecificFunctions user function', 'sf', True),
    # contrast: no meaning of their own (a metric suffix only means something directly after a number; the head of a
    # numbered variable is not itself a variable)
    ('fresh name', 'q', False), ('fresh name', 'zz', False), ('fresh name', "t'", False),
    ('metric suffix letter', 'k', False), ('metric suffix letter', 'M', False), ('metric suffix letter', 'u', False),
    ('numbered-variable head', 'a', False), ('fresh name', 'a_2', False),
]


def name_kind_cases(rng, reps):
    """the student's summation variable drawn from every kind of name of the problem; the variable is always entered"""
    out = []
    for rep_ in range(reps):
        for kind, name, meaning in NAME_KINDS:
            lo, hi = rng.randint(-4, 2), rng.randint(3, 7)
            cfg = {'answers': ['%d' % lo, '%d' % hi, 'n^2+x+a_{2}*0+c*0', 'n'], 'variables': ['x', 'c'], 'instructor_vars': ['c'],
                   'numbered_vars': ['a'], 'user_constants': {'tau': 6.28}, 'metric_suffixes': True,
                   'user_functions': {'h': 'square', 'f': 'random', 'g': 'random', 'sf': 'specific'},
                   'samples': rng.choice([1, 2]), 'tolerance': 1e-9}
            function_like = 'function' in kind
            summand = ('f(%s)*g(2) + x' % name) if kind.startswith('RandomFunction') and rng.random() < 0.5 else \
                      ('2+x' if function_like else '%s^2+x' % name)
            fields = ['%d' % lo, '%d' % hi, summand, name]
            # the summand and the variable are entered, the limits maybe
            entered = [rng.random() < 0.5, rng.random() < 0.5, True, True]
            order = [f for f in range(4) if entered[f]]
            rng.shuffle(order)
            pos = [None] * 4
            for p_, f in enumerate(order):
                pos[f] = p_ + 1
            cfg['positions'] = pos
            spec = {'key': 'name:%d:%s:%s' % (rep_, kind, name), 'cfg': cfg, 'inputs': inputs_from(pos, fields)}
            if meaning:
                spec.update(kind='student-error', meta={'what': 'dummy-has-meaning', 'field': 3, 'bad': name, 'name_kind': kind,
                                                        'fields': fields, 'lo': lo, 'hi': hi, 'eo': 0})
            else:
                spec.update(kind='dummy-contrast', meta={'name_kind': kind, 'name': name})
            out.append(spec)
    return out


def mixed_limit_cases(rng):
    """one limit infinite (either box, either sign), the other non-integer, complex or the same infinity"""
    out = []
    bads = [('noninteger-limit', '1/2'), ('noninteger-limit', '2.5'), ('noninteger-limit', '7/2'), ('noninteger-limit', '-0.5'),
            ('noninteger-limit', 'x/7+0.01'), ('noninteger-limit', '3-x/5'), ('complex-limit', '1+i'), ('complex-limit', '2*j'),
            ('same-infinities', None)]
    for box in (0, 1):
        for sign in (1, -1):
            for what, bad in bads:
                inf = 'infty' if sign > 0 else '-infty'
                if sign > 0:
                    answers = ['0', 'infty', '(1/2)^n+x*0', 'n']
                else:
                    answers = ['-infty', '0', '(1/2)^(-n)+x*0', 'n']
                var = rng.choice(['n', 'k'])
                fields = [None, None, answers[2].replace('n', var), var]
                fields[box] = inf
                fields[1 - box] = inf if bad is None else bad
                pos = pick_positions(rng, 0.5)
                if pos is not None:
                    for f in (0, 1) + ((2, 3) if var != 'n' else ()):
                        if pos[f] is None:
                            pos[f] = max([p_ for p_ in pos if p_ is not None] + [0]) + 1
                cfg = {'answers': answers, 'variables': ['x'], 'infty_val': 30, 'tolerance': '1%', 'samples': rng.choice([1, 2])}
                if pos is not None:
                    cfg['positions'] = pos
                out.append({'key': 'mixlim:%d:%d:%s:%r' % (box, sign, what, bad), 'kind': 'student-error', 'cfg': cfg,
                            'inputs': inputs_from(pos, fields),
                            'meta': {'what': what, 'field': 1 - box, 'bad': bad, 'fields': fields, 'lo': 0, 'hi': 1, 'eo': 0,
                                     'mixed_with_infinity': inf}})
    return out


def author_error_cases(rng, count):
    """failures in the author's own sum, with a valid student submission"""
    probes = [('noninteger-limit', 0, '1/2'), ('noninteger-limit', 1, '2.5'), ('complex-limit', 0, '1+i'), ('complex-limit', 1, 'i'),
              ('same-infinities', None, 'infty'), ('same-infinities', None, '-infty'),
              ('dummy-in-scope', 3, 'x'), ('dummy-in-scope', 3, 'i'), ('dummy-in-scope', 3, 'pi'),
              ('dummy-reserved', 3, 'sin'), ('dummy-reserved', 3, 'e'), ('dummy-invalid-name', 3, '_n'), ('dummy-invalid-name', 3, 'n m'),
              ('undefined-variable', 2, 'n+zz'), ('division-by-zero', 2, '1/(n-n)'), ('shape', 2, '[n,1]+[1,2,3]'),
              ('blank-field', 0, ''), ('blank-field', 1, ''), ('blank-field', 2, ''), ('blank-field', 3, ''),
              ('whitespace-limit', 0, ' '), ('whitespace-limit', 1, '  '), ('array-limit', 0, '[1,2]'),
              ('unparsable', 0, '1+'), ('unparsable', 2, 'n+*2'), ('unparsable', 1, '(3'),
              ('mixed-limit', (0, 'infty'), '1/2'), ('mixed-limit', (1, 'infty'), '7/2'), ('mixed-limit', (0, '-infty'), '2.5'),
              ('mixed-limit', (1, '-infty'), 'x/7+0.01')]
    out = []
    for j in range(count):
        what, field, bad = probes[j % len(probes)]
        answers = ['1', '4', 'n^2+x', 'n']
        if what == 'same-infinities':
            answers[0] = answers[1] = bad
        elif what == 'mixed-limit':
            box, inf = field
            answers[box], answers[1 - box] = inf, bad
            answers[2] = '(1/2)^n' if inf == 'infty' else '(1/2)^(-n)'
        elif what.startswith('dummy'):
            answers[3] = bad
            answers[2] = '2+x'
        else:
            answers[field] = bad
        # which fields the student enters: all, or a subset (the failing author field entered or not)
        pos = pick_positions(rng, 0.4)
        var = rng.choice(['n', 'k'])
        if what.startswith('dummy'):
            fields = ['1', '4', '2+x', var]
        else:
            fields = ['1', '4', '%s^2+x' % var, var]
        if pos is not None and var != 'n' and (pos[2] is None or pos[3] is None) and not what.startswith('dummy'):
            var = 'n'
            fields = ['1', '4', 'n^2+x', 'n']
        cfg = {'answers': answers, 'variables': ['x'], 'samples': rng.choice([1, 2])}
        if what == 'mixed-limit':
            cfg['infty_val'] = 30
        if pos is not None:
            cfg['positions'] = pos
        entered = [True] * 4 if pos is None else [p is not None for p in pos]
        out.append({'key': 'aerr:%d:%s:%s:%r:%r' % (j, what, field, bad, pos), 'kind': 'author-error', 'cfg': cfg,
                    'inputs': inputs_from(pos, fields),
                    'meta': {'what': what, 'field': field, 'bad': bad, 'entered': entered, 'fields': fields}})
    return out


def position_cases(rng, tier):
    out = []
    answers = ['2', '6', 'n^2+1', 'n']
    fields = ['1+1', '6.0', 'k^2+1', 'k']
    # every subset of the four fields, in two orders each
    for mask in range(16):
        entered = [f for f in range(4) if mask >> f & 1]
        for rep in range(2):
            order = list(entered)
            rng.shuffle(order)
            pos = [None] * 4
            for p, f in enumerate(order):
                pos[f] = p + 1
            fl = list(fields)
            if not (pos[2] is not None and pos[3] is not None):
                fl[2], fl[3] = 'n^2+1', 'n'
            inputs = inputs_from(pos, fl)
            for delta in (0, 1, -1):
                if delta == 1:
                    inp = inputs + ['1']
                elif delta == -1:
                    if not inputs:
                        continue
                    inp = inputs[:-1]
                else:
                    inp = inputs
                out.append({'key': 'pos:%d:%d:%d' % (mask, rep, delta), 'kind': 'positions',
                            'cfg': {'answers': answers, 'positions': pos, 'explicit_none': rep == 1},
                            'inputs': inp, 'meta': {'valid': True, 'delta': delta}})
    # invalid position maps
    bad_maps = [[1, 1, 2, 3], [1, 2, 2, None], [2, 3, 4, 5], [None, 2, None, None], [1, 3, None, None], [1, 2, 4, None],
                [3, 3, 3, 3], [None, None, 2, 2], [2, None, None, 3]]
    for j, pos in enumerate(bad_maps):
        out.append({'key': 'badpos:%d' % j, 'kind': 'positions', 'cfg': {'answers': answers, 'positions': pos},
                    'inputs': ['1'] * sum(1 for p in pos if p is not None), 'meta': {'valid': False}})
    return out


# ================================================================================================
# the property oracle (independent of the model: exact reference sums, index sets, error classes)
# ================================================================================================
def tree_uses_fact(t):
    if t[0] == 'fact0':
        return True
    if t[0] == 'vec':
        return any(tree_uses_fact(x) for x in t[1])
    return any(tree_uses_fact(x) for x in t[1:] if isinstance(x, tuple))


def ref_sum(who, meta, env):
    lo, hi, tree, var = meta[who]
    cut = meta['cut_fact'] if tree_uses_fact(tree) else meta['cut']
    idx = ref_indices(lo, hi, meta['eo'], cut)
    total, scale = sx.ZERO, 1.0
    for k in idx:
        v = sx.ev(tree, k, env)
        total = sx.v_add(total, v)
        scale += math.sqrt(float(sx.norm2(v)))
    return total, scale, idx


def site_of(run):
    """where in the implementation an unexpected student-facing error for an author failure came from"""
    ig, mh, ex, cex = lib()
    st, r = run['outcome']
    rec, spec = run['rec'], run['spec']
    if st != 'exc':
        return None, None
    msg = str(r)
    tp = run.get('true_positions', {})
    not_entered = [f for f in FIELDS if tp.get(f) is None]
    if isinstance(r, ex.MissingInput) and msg.startswith('Please enter a value for'):
        m = re.match(r'Please enter a value for (\w+),', msg)
        if m and m.group(1) in not_entered:
            return 'SummationGraderBase.check', 'blank author field that the student does not enter'
    if type(r) is ex.InvalidInput and ('as summation variable' in msg or 'is an invalid variable name' in msg):
        if 'summation_variable' in not_entered:
            return 'SummationGraderBase.check', "author's summation variable validated as if the student had typed it"
    if isinstance(r, cex.CalcError) and not rec.esums:
        bad = [p[0] for p in rec.parses if p[1] != 'ok']
        if bad and bad[0] in spec['cfg']['answers'] and bad[0] not in as_inputs(spec['inputs']):
            return 'MathMixin.gen_var_and_func_samples', "author's expression does not parse"
    if type(r) is ex.StudentFacingError and msg.startswith('Invalid Input: Could not check input'):
        for e in rec.esums:
            if e['k'] % 2 == 0 and e['result'][0] == 'exc' and not isinstance(e['result'][1], ex.MITxError):
                return 'SumGrader.evaluate_sum', "author's limit is blank, nan or an array (non-library exception)"
    return None, None


def oracle(run):
    """-> list of witness dicts (empty when the property holds on this call)"""
    ig, mh, ex, cex = lib()
    spec, rec = run['spec'], run['rec']
    st, r = run['outcome']
    meta, kind = spec.get('meta', {}), spec['kind']
    fails = []

    def fail(what, **extra):
        w = {'key': spec['key'], 'kind': kind, 'what': what, 'cfg': spec['cfg'], 'inputs': spec['inputs'],
             'meta_repr': repr(meta), 'observed': repr(r)[:300]}
        w.update(extra)
        fails.append(w)

    if st == 'timeout':
        fail('the call did not return within 10 s')
        return fails
    if st == 'exc' and not isinstance(r, ex.MITxError):
        fail('an exception that is not a library error escaped: %r' % (r,))
        return fails

    if kind == 'value':
        samples = spec['cfg'].get('samples', 2)
        envs = {}
        for e in rec.esums:
            envs.setdefault(e['k'] // 2, e['values'])
        if st == 'ret' and len(rec.esums) != 2 * samples:
            fail('%d sums evaluated for %d samples' % (len(rec.esums), samples))
            return fails
        verdicts, boundary = [], False
        try:
            for i in range(samples):
                if i not in envs:
                    break
                env = {k: v for k, v in envs[i].items() if isinstance(v, (int, float)) and not isinstance(v, bool)}
                A, sa, idx_a = ref_sum('author', meta, env)
                S, ss, idx_s = ref_sum('student', meta, env)
                # every integer of the index set is evaluated exactly once, nothing else
                for e in rec.esums:
                    if e['k'] // 2 != i or e['result'][0] != 'ret':
                        continue
                    want = idx_a if e['k'] % 2 == 0 else idx_s
                    got = sorted(x.get('n') for x in e['evals'] if not x['allow_inf'])
                    if got != want:
                        fail('%s sum of sample %d evaluated the summand at %s, the index set is %s' %
                             ('author' if e['k'] % 2 == 0 else 'student', i, got[:30], want[:30]),
                             site='SumGrader.perform_summation', trigger='index set')
                        return fails
                if sx.is_vec(A) != sx.is_vec(S):
                    boundary = True      # an empty sum (the integer 0) against an array: outside the property
                    continue
                D = sx.v_add(A, sx.v_neg(S))
                d2, a2 = sx.norm2(D), sx.norm2(A)
                tol = meta['tol']
                T2 = (Fraction(tol[:-1]) / 100) ** 2 * a2 if isinstance(tol, str) else Fraction(tol) ** 2
                d, T = math.sqrt(d2), math.sqrt(T2)
                slack = 1e-9 * (sa + ss) + 1e-9 * T
                if d2 == 0:
                    if meta['exact'] or T > slack:
                        verdicts.append(True)
                    else:
                        boundary = True
                elif abs(d - T) <= slack:
                    boundary = True
                else:
                    verdicts.append(d < T)
        except sx.RefError as e:
            run['ref_error'] = str(e)
            return fails
        run['oracle_boundary'] = boundary
        if st == 'exc':
            if not boundary and verdicts and all(verdicts) and len(verdicts) == samples:
                fail('a sum equal to the author\'s was not graded: %r' % (r,))
            elif not is_student_facing(r):
                fail('a well-formed submission produced a configuration error: %r' % (r,))
            return fails
        ok = r.get('ok')
        if any(v is False for v in verdicts):
            if ok is True:
                fail('graded correct although the reference sums differ beyond the tolerance at some sample (%s)' % meta['label'])
        elif not boundary and len(verdicts) == samples:
            if ok is not True:
                fail('graded %r although the reference sums agree within the tolerance at every sample (%s)' % (ok, meta['label']))
        run['nontrivial'] = (spec['key'], bool(ok))
        return fails

    if kind == 'student-error':
        if not (st == 'exc' and is_student_facing(r)):
            fail('%s (%r%s) did not raise a student-facing error: %s' %
                 (meta['what'], meta['bad'], ', a ' + meta['name_kind'] if meta.get('name_kind') else
                  (', other limit ' + meta['mixed_with_infinity'] if meta.get('mixed_with_infinity') else ''), repr(r)[:200]))
        return fails

    if kind == 'defaults':
        view = run.get('config_view') or {}
        for k, want in DOCUMENTED_DEFAULTS.items():
            got = view.get(k)
            if got != want or type(got) is not type(want) and not (isinstance(got, (int, float)) and isinstance(want, (int, float))):
                fail('a SumGrader built from the answers alone has %s = %r, the documented default is %r' % (k, got, want))
        if not (st == 'ret' and r.get('ok') is True):
            fail('default-configured grader did not accept the author\'s own sum: %s' % repr(r)[:200])
        return fails

    if kind == 'probe':
        # the student's sum is the author's with the limits swapped: equal in value, no function the author does not use
        fresh = meta.get('fresh')
        if fresh is not None and canon((st, r)) != fresh:
            fail('outcome depends on what was graded before: %r here, %r in a fresh interpreter (restriction %r)'
                 % (canon((st, r)), fresh, meta.get('restriction')), history=meta.get('history'))
        elif meta.get('function_free') and not (st == 'ret' and r.get('ok') is True):
            fail('a sum equal to the author\'s (limits swapped, no function call) was not graded correct: %s (restriction %r)'
                 % (repr(r)[:200], meta.get('restriction')), history=meta.get('history'))
        return fails

    if kind == 'dummy-contrast':
        if not (st == 'ret' and r.get('ok') is True):
            fail('%s %r has no meaning of its own in the problem but was not accepted as the summation variable: %s'
                 % (meta['name_kind'], meta['name'], repr(r)[:200]))
        return fails

    if kind == 'author-error':
        maybe_fine = meta['what'] in ('dummy-reserved', 'dummy-invalid-name')
        if st == 'exc' and isinstance(r, ex.ConfigError):
            return fails
        if st == 'ret' and maybe_fine:
            return fails
        site, trig = site_of(run)
        fail("failure in the author's own sum (%s %r) reported as %s" % (meta['what'], meta['bad'], repr(r)[:200]), site=site, trigger=trig)
        return fails

    if kind == 'positions':
        if not meta['valid']:
            if not (run['stage'] == 'construct' and st == 'exc' and isinstance(r, ex.ConfigError)):
                fail('invalid input_positions accepted: %r' % (r,))
        elif meta['delta'] != 0:
            if not (st == 'exc' and isinstance(r, ex.ConfigError)):
                fail('wrong number of inputs did not raise ConfigError: %r' % (r,))
        else:
            if not (st == 'ret' and r.get('ok') is True):
                fail('an equal sum entered through a subset of the input positions was not graded correct: %r' % (r,))
        return fails
    return fails


# ================================================================================================
# corpus: fixed cases that run first (regressions and the findings on the unchanged tree)
# ================================================================================================
def corpus():
    c = []

    def add(key, kind, cfg, inputs, meta):
        c.append({'key': 'corpus:' + key, 'kind': kind, 'cfg': cfg, 'inputs': inputs, 'meta': meta})
    base = ['1', '4', 'n^2+x', 'n']
    # author failures that the implementation reports to the student
    add('author-blank-lower-not-entered', 'author-error', {'answers': ['', '4', 'n^2+x', 'n'], 'variables': ['x'], 'positions': [None, None, 1, None]},
        'n^2+x', {'what': 'blank-field', 'field': 0, 'bad': '', 'entered': [False, False, True, False]})
    add('author-dummy-sin-not-entered', 'author-error', {'answers': ['1', '4', '2+x', 'sin'], 'variables': ['x'], 'positions': [None, None, 1, None]},
        '2+x', {'what': 'dummy-reserved', 'field': 3, 'bad': 'sin', 'entered': [False, False, True, False]})
    add('author-dummy-i-not-entered', 'author-error', {'answers': ['1', '4', '2+x', 'i'], 'variables': ['x'], 'positions': [1, 2, 3, None]},
        ['1', '4', '2+x'], {'what': 'dummy-in-scope', 'field': 3, 'bad': 'i', 'entered': [True, True, True, False]})
    add('author-dummy-i-entered', 'author-error', {'answers': ['1', '4', '2+x', 'i'], 'variables': ['x']},
        ['1', '4', '2+x', 'k'], {'what': 'dummy-in-scope', 'field': 3, 'bad': 'i', 'entered': [True] * 4})
    add('author-summand-unparsable', 'author-error', {'answers': ['1', '4', 'n+', 'n'], 'variables': ['x']},
        ['1', '4', 'n', 'n'], {'what': 'unparsable', 'field': 2, 'bad': 'n+', 'entered': [True] * 4})
    add('author-lower-whitespace', 'author-error', {'answers': [' ', '4', 'n', 'n']},
        ['1', '4', 'n', 'n'], {'what': 'whitespace-limit', 'field': 0, 'bad': ' ', 'entered': [True] * 4})
    add('author-lower-blank-entered', 'author-error', {'answers': ['', '4', 'n', 'n']},
        ['1', '4', 'n', 'n'], {'what': 'blank-field', 'field': 0, 'bad': '', 'entered': [True] * 4})
    add('author-lower-array', 'author-error', {'answers': ['[1,2]', '4', 'n', 'n']},
        ['1', '4', 'n', 'n'], {'what': 'array-limit', 'field': 0, 'bad': '[1,2]', 'entered': [True] * 4})
    add('author-division-by-zero', 'author-error', {'answers': ['0', '1', '1/t', 't']},
        ['0', '1', 't', 't'], {'what': 'division-by-zero', 'field': 2, 'bad': '1/t', 'entered': [True] * 4})
    # student errors
    add('instructor-var-empty-range', 'student-error',
        {'answers': ['2', '2', 'n', 'n'], 'even_odd': 1, 'variables': ['c'], 'instructor_vars': ['c']},
        ['2', '2', 'c*n', 'n'], {'what': 'instructor-var', 'field': 2, 'bad': None, 'lo': 2, 'hi': 2, 'eo': 1})
    add('instructor-var-nonempty-range', 'student-error',
        {'answers': ['1', '3', 'c*n', 'n'], 'variables': ['c'], 'instructor_vars': ['c']},
        ['1', '3', 'c*n', 'n'], {'what': 'instructor-var', 'field': 2, 'bad': None, 'lo': 1, 'hi': 3, 'eo': 0})
    add('instructor-var-as-dummy', 'student-error',
        {'answers': ['1', '3', 'n^2', 'n'], 'variables': ['c'], 'instructor_vars': ['c']},
        ['1', '3', 'c^2', 'c'], {'what': 'dummy-has-meaning', 'field': 3, 'bad': 'c', 'lo': 1, 'hi': 3, 'eo': 0})
    add('variable-as-dummy', 'student-error',
        {'answers': ['0', '1', 't', 't'], 'variables': ['x']},
        ['0', '1', 'x', 'x'], {'what': 'dummy-has-meaning', 'field': 3, 'bad': 'x', 'lo': 0, 'hi': 1, 'eo': 0})
    # the name of a randomly sampled user function as the summation variable
    add('random-function-as-dummy', 'student-error',
        {'answers': ['1', '5', 'f(n)*g(n) + c*x', 'n'], 'variables': ['x', 'c'], 'instructor_vars': ['c'],
         'user_functions': {'f': 'random', 'g': 'random'}, 'samples': 2},
        ['1', '5', 'f(f)*g(f) + x', 'f'], {'what': 'dummy-has-meaning', 'field': 3, 'bad': 'f', 'name_kind': 'RandomFunction user function',
                                           'lo': 1, 'hi': 5, 'eo': 0})
    # a non-integer limit next to an infinite one
    geo = {'answers': ['0', 'infty', 'x^n', 'n'], 'variables': ['x'], 'sample_from': {'x': ('real', 0.1, 0.5)}, 'infty_val': 40,
           'tolerance': '1%', 'samples': 2}
    add('noninteger-lower-with-infinite-upper', 'student-error', dict(geo), ['1/2', 'infty', 'x^n', 'n'],
        {'what': 'noninteger-limit', 'field': 0, 'bad': '1/2', 'mixed_with_infinity': 'infty', 'lo': 0, 'hi': 1, 'eo': 0})
    add('noninteger-upper-with-infinite-lower', 'student-error', dict(geo), ['infty', '7/2', 'x^n', 'n'],
        {'what': 'noninteger-limit', 'field': 1, 'bad': '7/2', 'mixed_with_infinity': 'infty', 'lo': 0, 'hi': 1, 'eo': 0})
    add('author-noninteger-lower-with-infinite-upper', 'author-error', dict(geo, answers=['1/2', 'infty', 'x^n', 'n']),
        ['0', 'infty', 'x^n', 'n'], {'what': 'mixed-limit', 'field': (0, 'infty'), 'bad': '1/2', 'entered': [True] * 4})
    # a grader built from the answers alone: the documented defaults
    add('documented-defaults', 'defaults', {'answers': ['1', '4', 'n^2', 'n']}, ['1', '4', 'k^2', 'k'], {})
    # values
    n = ('n',)
    for j, (a, s, eo, ok) in enumerate([
            ((('int', 1), ('int', 5), ('powc', n, 2), 'n'), (('int', 5), ('int', 1), ('powc', n, 2), 'k'), 0, True),
            ((('int', 1), ('int', 5), ('powc', n, 2), 'n'), (('int', 2), ('int', 6), ('powc', ('sub', n, ('c', Fraction(1))), 2), 'k'), 0, True),
            ((('int', 1), ('int', 5), n, 'n'), (('int', -5), ('int', -1), ('neg', n), 'm'), 1, True),
            ((('int', 1), ('int', 5), n, 'n'), (('int', 1), ('int', 6), n, 'n'), 2, False),
            ((('int', 2), ('int', 2), n, 'n'), (('int', 4), ('int', 4), n, 'n'), 1, True),
            ((('int', -12), ('int', 12), ('vec', (n, ('c', Fraction(1)), ('powc', n, 2))), 'n'),
             (('int', 12), ('int', -12), ('vec', (('c', Fraction(0)), ('c', Fraction(1)), ('powc', n, 2))), 't'), 0, True)]):
        cfg = {'answers': ['%d' % a[0][1], '%d' % a[1][1], sx.render(a[2], a[3]), a[3]], 'samples': 1}
        if eo:
            cfg['even_odd'] = eo
        add('value-%d' % j, 'value', cfg, ['%d' % s[0][1], '%d' % s[1][1], sx.render(s[2], s[3]), s[3]],
            {'author': a, 'student': s, 'eo': eo, 'cut': 1000, 'cut_fact': 80, 'tol': 1e-12, 'exact': True, 'label': 'corpus', 'variables': []})
    return c


# ------------------------------------------------------------------------------------------------
# perturb-then-probe: the verdict of a call must not depend on what the process graded before
# ------------------------------------------------------------------------------------------------
SHARED_SUMMANDS = ['n^2+x', '2*n+1', 'n*x-1', '(n+1)^2', 'n^2+sin(0)*x', '[n, x, 1]', 'abs(n)+x']
FUNCTION_FREE = {'n^2+x', '2*n+1', 'n*x-1', '(n+1)^2', '[n, x, 1]'}
INTEGER_CALLS = [('floor(7/2)', 3), ('ceil(5/2)', 3), ('abs(-2)', 2), ('max(1,2)', 2), ('h(2)', 4), ('sqrt(16)', 4),
                 ('kronecker(1,1)+1', 2), ('min(5,3)', 3), ('floor(7/2)+h(1)', 4)]
RESTRICTIONS = [{'whitelist': [None]}, {'whitelist': ['sin', 'cos']}, {'blacklist': ['floor', 'ceil', 'max', 'min', 'sqrt', 'kronecker']},
                {'whitelist': ['abs', 'sin']}, {}]


def history_specs(rng):
    """(perturbers, probes): graders that share summand strings but differ in limits, options and function restrictions"""
    perturbers, probes = [], []
    for j, summand in enumerate(SHARED_SUMMANDS):
        for r_, restr in enumerate(RESTRICTIONS):
            lo, hi = rng.randint(-3, 2), rng.randint(3, 6)
            cfg = dict({'answers': ['%d' % lo, '%d' % hi, summand, 'n'], 'variables': ['x'], 'samples': 1}, **restr)
            probes.append({'key': 'probe:%d:%d' % (j, r_), 'kind': 'probe', 'cfg': cfg,
                           'inputs': ['%d' % hi, '%d' % lo, summand, 'n'],
                           'meta': {'restriction': restr, 'function_free': summand in FUNCTION_FREE}})
    for j in range(60):
        summand = rng.choice(SHARED_SUMMANDS)
        call, val = rng.choice(INTEGER_CALLS)
        lo = rng.randint(-3, 1)
        cfg = {'answers': ['%d' % lo, '%d' % val, summand, 'n'], 'variables': ['x'], 'samples': rng.choice([1, 2]),
               'user_functions': {'h': 'square'}}
        r_ = rng.random()
        if r_ < 0.5:
            inputs = ['%d' % lo, call, summand, 'n']                      # a function call in a student limit
        elif r_ < 0.65:
            cfg['answers'][1] = call                                        # ... in an author limit
            inputs = ['%d' % lo, '%d' % val, summand, 'n']
        elif r_ < 0.75:
            inputs = ['%d' % lo, call + '+1/2', summand, 'n']               # an error-raising submission
        elif r_ < 0.85:
            inputs = ['%d' % lo, call, summand + '+zz', 'n']                # undefined name
        else:
            cfg.update(even_odd=rng.choice([1, 2]), infty_val=rng.choice([5, 30]))
            inputs = [call, '%d' % lo, summand.replace('n', 'k'), 'k'] if 'sin' not in summand and 'abs' not in summand else \
                     [call, '%d' % lo, summand, 'n']
        perturbers.append({'key': 'perturb:%d' % j, 'kind': 'perturber', 'cfg': cfg, 'inputs': inputs, 'meta': {}})
    return perturbers, probes


def canon(outcome):
    st, r = outcome
    if st == 'ret':
        return ['ret', repr(r.get('ok')) if isinstance(r, dict) else repr(r)]
    if st == 'exc':
        return ['exc', type(r).__name__, str(r)[:200]]
    return [st]


def other_family_calls(rng):
    """other classes of the library evaluating the same strings (they share the parser and its cache)"""
    from mitxgraders import FormulaGrader
    for summand in SHARED_SUMMANDS:
        if summand.startswith('['):
            continue
        call, _ = rng.choice(INTEGER_CALLS[:4])
        core.guarded(FormulaGrader(answers=summand, variables=['n', 'x']), None, '%s-%s+%s' % (call, call, summand))


def probe_outcomes(probes):
    """run in a FRESH interpreter (subprocess): the reference outcome of every probe"""
    return [canon(run_case(p)['outcome']) for p in probes]


def fresh_outcomes(probes):
    import json
    import subprocess
    code = ('import sys, json; sys.path[:0] = [%r, %r]; from harness.props import c19; '
            'print("@@" + json.dumps(c19.probe_outcomes(json.load(sys.stdin))))' % (core.REPO, core.VERIF))
    try:
        p_ = subprocess.run([sys.executable, '-B', '-c', code], input=json.dumps(probes), stdout=subprocess.PIPE,
                            stderr=subprocess.PIPE, text=True, timeout=300, env=dict(os.environ, PYTHONHASHSEED='0'))
        line = [l for l in p_.stdout.splitlines() if l.startswith('@@')]
        return json.loads(line[-1][2:]) if line else None
    except Exception as e:
        core.log('C19: fresh interpreter unavailable: %r' % (e,))
        return None


def history_stream(ctx):
    """probes, perturbers, other classes, probes again; every probe outcome is compared with a fresh interpreter's"""
    rng = random.Random(104729 * ctx['seed'] + 5)
    perturbers, probes = history_specs(rng)
    fresh = fresh_outcomes(probes)
    specs, outs = [], []

    def run_probes(tag):
        for j, pb in enumerate(probes):
            spec = dict(pb, key='%s:%s' % (pb['key'], tag))
            spec['meta'] = dict(pb['meta'], history=[{'cfg': x['cfg'], 'inputs': x['inputs'], 'key': x['key']} for x in perturbers]
                                if tag == 'after' else [], fresh=fresh[j] if fresh else None)
            o = process(spec)
            if not pb['meta']['function_free']:
                o['term'] = None        # post-evaluation function restrictions are not part of the model (C09)
                o['unencodable'] = None
            specs.append(spec)
            outs.append(o)
    run_probes('before')
    for pt in perturbers:
        run_case(pt)
    other_family_calls(rng)
    run_probes('after')
    return specs, outs


def generate(ctx):
    rng = random.Random(7919 * ctx['seed'] + 19)
    tier = ctx['tier']
    specs = corpus()
    # the property's grid: every limit pair in [-12, 12] in both orders x even_odd
    grid = [(a, b, eo) for a in range(-12, 13) for b in range(-12, 13) for eo in (0, 1, 2)]
    reps = 1 if tier == 'quick' else 2
    pool = make_pool(rng, 60 if tier == 'quick' else 400)
    for rep in range(reps):
        for (a, b, eo) in grid:
            specs.append(value_case(rng, 'grid:%d:%d:%d:%d' % (a, b, eo, rep), a, b, eo, tier, pool=pool))
    n_inf = 150 if tier == 'quick' else 600
    for j in range(n_inf):
        direction = rng.choice([1, 1, -1, 0])
        fin = rng.randint(-3, 5) if direction >= 0 else rng.randint(-5, 3)
        specs.append(value_case(rng, 'inf:%d' % j, 0, 0, rng.choice([0, 0, 1, 2]), tier, infinite=(direction, fin)))
    # finite limits beyond the cutoff in force (small infty_val / infty_val_fact): nothing may be clipped
    for j in range(90 if tier == 'quick' else 400):
        cutoff = rng.choice([5, 12, 30])
        a = rng.choice([-1, 1]) * rng.randint(cutoff + 1, cutoff + 14)
        b = rng.randint(-cutoff - 12, cutoff + 12) if rng.random() < 0.7 else rng.choice([-1, 1]) * rng.randint(cutoff + 1, cutoff + 14)
        if rng.random() < 0.5:
            a, b = b, a
        specs.append(value_case(rng, 'beyond:%d:%d:%d:%d' % (j, cutoff, a, b), a, b, rng.choice([0, 0, 1, 2]), tier,
                                pool=pool, cutoff=cutoff))
    specs += student_error_cases(rng, 160 if tier == 'quick' else 600)
    specs += name_kind_cases(rng, 2 if tier == 'quick' else 6)
    specs += mixed_limit_cases(rng)
    specs += author_error_cases(rng, 120 if tier == 'quick' else 480)
    specs += position_cases(rng, tier)
    return specs


# ================================================================================================
# driver API
# ================================================================================================
CODES = {1: 'final outcome differs', 2: 'evaluation points differ', 3: 'sum differs',
         4: 'model fails where the implementation returned', 5: 'regenerated plan violates the index-set specification'}


def process(spec):
    """one grader call: run, oracle, Coq term.  Returns plain data (runs in a worker process)."""
    run_ = run_case(spec)
    st, r = run_['outcome']
    out = {'key': spec['key'], 'kind': spec['kind'], 'witnesses': oracle(run_), 'oracle_boundary': bool(run_.get('oracle_boundary')),
           'ref_error': 'ref_error' in run_, 'status': st,
           'n_terms': sum(1 for e in run_['rec'].esums for x in e['evals'] if not x['allow_inf'])}
    if st == 'ret':
        out['ok'] = r.get('ok') is True if isinstance(r, dict) else None
        out['result'] = {k: r.get(k) for k in ('ok', 'grade_decimal', 'msg')} if isinstance(r, dict) else repr(r)
    else:
        out['err'] = err_tag(r) if st == 'exc' else 'timeout'
    term, info = case_term(run_)
    out['term'], out['corr_boundary'], out['unencodable'] = term, info.get('boundary', False), info.get('unencodable')
    return out


def process_chunk(specs):
    return [process(s) for s in specs]


def run_all(specs, workers=12):
    import multiprocessing
    from concurrent.futures import ProcessPoolExecutor
    default_reserved()
    chunks = [specs[i:i + 24] for i in range(0, len(specs), 24)]
    try:
        with ProcessPoolExecutor(max_workers=workers, mp_context=multiprocessing.get_context('fork')) as ex_:
            outs = list(ex_.map(process_chunk, chunks))
    except Exception as e:          # no fork / pool failure: run in-process
        core.log('C19: process pool unavailable (%r), running in-process' % (e,))
        outs = [process_chunk(c) for c in chunks]
    return [o for chunk in outs for o in chunk]


def run(ctx):
    res = core.Result()
    res.rule = ('one case per grader call SumGrader(cfg)(None, inputs); a case is non-trivial when it is a value case that '
                'reached a verdict with at least one summand evaluation (distinct by configuration and inputs)')
    specs = generate(ctx)
    outs = run_all(specs)
    h_specs, h_outs = history_stream(ctx)
    specs, outs = specs + h_specs, outs + h_outs
    terms, metas = [], []
    # volume of the Coq replay: everything on the thorough tier, when an obligation is broken, or when the fingerprint of
    # some (not every: then no baseline has been recorded yet) mirrored function changed; otherwise every non-grid case
    # and a third of the grid (the implementation-level oracle always runs the whole grid)
    changed = ctx.get('fingerprints_changed', [])
    full = ctx['tier'] == 'thorough' or bool(ctx.get('broken')) or (0 < len(changed) < len(MIRRORED))
    res.notes.append('Coq replay volume: %s' % ('full' if full else 'all non-grid cases + 1/3 of the grid'))
    dist = {'value': 0, 'student-error': 0, 'author-error': 0, 'positions': 0, 'dummy-contrast': 0, 'probe': 0, 'defaults': 0, 'unencodable': 0, 'oracle_boundary': 0,
            'ref_errors': 0, 'verdict_true': 0, 'verdict_false': 0, 'raised': 0, 'terms_evaluated': 0}
    labels, errkinds = {}, {}
    for spec, o in zip(specs, outs):
        dist[spec['kind']] += 1
        res.oracle_evals += 1
        res.witnesses += o['witnesses']
        if o['oracle_boundary']:
            dist['oracle_boundary'] += 1
            res.boundary += 1
        dist['ref_errors'] += 1 if o['ref_error'] else 0
        dist['terms_evaluated'] += o['n_terms']
        if o['status'] == 'ret':
            dist['verdict_true' if o['ok'] else 'verdict_false'] += 1
            if spec['kind'] == 'value' and o['n_terms']:
                res.nontrivial.add((spec['key'], tuple(spec['cfg']['answers']), tuple(as_inputs(spec['inputs']))))
        else:
            dist['raised'] += 1
            errkinds[o['err']] = errkinds.get(o['err'], 0) + 1
        if spec['kind'] == 'value':
            lab = spec['meta']['label']
            labels[lab] = labels.get(lab, 0) + 1
        if o['term'] is None:
            if o.get('unencodable'):
                dist['unencodable'] += 1
            continue
        if not full and spec['key'].startswith('grid') and case_seed(spec['key']) % 3 != ctx['seed'] % 3:
            continue
        if o['corr_boundary']:
            res.boundary += 1
        terms.append(o['term'])
        metas.append(spec)
        if len(res.samples) < 4 and spec['kind'] == 'value' and o['status'] == 'ret' and spec['key'].startswith('grid'):
            res.samples.append({'answers': spec['cfg']['answers'], 'even_odd': spec['cfg'].get('even_odd', 0),
                                'inputs': spec['inputs'], 'transformation': spec['meta']['label'], 'implementation': o['result'],
                                'model': 'same outcome, sums and evaluation points (checked in Coq)'})
    # witnesses that do not belong to an already characterised call site / trigger come first (the driver prints five)
    res.witnesses.sort(key=lambda w: 1 if w.get('site') else 0)
    dist['transformations'] = dict(sorted(labels.items(), key=lambda kv: -kv[1])[:12])
    dist['error_classes'] = errkinds
    res.distribution = dist
    res.exhaustive = False
    # spread expensive cases (infinite sums) evenly over the shards
    shard = max(20, len(terms) // 32 + 1)
    nshards = max(1, (len(terms) + shard - 1) // shard)
    order = sorted(range(len(terms)), key=lambda j: (j % nshards, j))
    terms, metas = [terms[j] for j in order], [metas[j] for j in order]
    n, failing, errors = core.eval_agreement('c19', header(), 'case_ok', terms, shard=shard, case_type='ccase')
    res.programs = n
    res.corr_errors += errors
    if failing:
        # second pass: which comparison failed
        sub = [terms[i] for i in failing[:40]]
        text = (header() + '\nDefinition verif_cases : list ccase :=\n  [ %s ].\n' % '\n  ; '.join(sub) +
                'Eval vm_compute in (map case_code verif_cases).\n')
        out = core.run_case_files([('c19_codes', text)])[0][2]
        m = re.search(r'=\s*\[(.*?)\]\s*:\s*list nat', out, re.S)
        codes = [int(x) for x in re.findall(r'\d+', m.group(1).replace('%nat', ''))] if m else []
        for j, i in enumerate(failing):
            spec = metas[i]
            code = codes[j] if j < len(codes) else None
            res.disagreements.append({'kind': spec['kind'], 'key': spec['key'], 'cfg': spec['cfg'], 'inputs': spec['inputs'],
                                      'what': CODES.get(code, 'model and implementation differ')})
    return res


def replay(w):
    try:
        meta = eval(w.get('meta_repr', '{}'), {'Fraction': Fraction})
    except Exception:
        meta = {}
    cfg = w['cfg']
    if isinstance(cfg.get('positions'), list):
        cfg = dict(cfg)
    spec = {'key': w['key'], 'kind': w['kind'], 'cfg': cfg, 'inputs': w['inputs'], 'meta': meta}
    for h in (w.get('history') or []):
        run_case({'key': h['key'], 'kind': 'perturber', 'cfg': h['cfg'], 'inputs': h['inputs'], 'meta': {}})
    run_ = run_case(spec)
    fails = oracle(run_)
    st, r = run_['outcome']
    text = 'SumGrader(%r)(None, %r) -> %s %r' % (cfg, w['inputs'], st, r)
    if fails:
        return True, text + '\n' + fails[0]['what']
    return False, text


def classify_known(w, known):
    """A witness belongs to a known finding when call site and triggering condition are the same."""
    for e in known:
        kw = e.get('witness', {})
        if w.get('site') and w.get('site') == kw.get('site') and w.get('trigger') == kw.get('trigger'):
            return e['id']
    return None


REFUTED = ['C19_author_failure_is_config_error_refuted']
TRUSTED = [
    'translator translate/summation.py (Python ast -> Gallina over Verif.Lib.SummationPy.pyv; templates for the statements it does not translate)',
    'correspondence harness harness/props/c19.py: wraps calc.evaluator / calc.parse / MathExpression.check_scope / is_valid_variable_name / SumGrader.evaluate_sum at '
    'run time and replays the recorded oracle answers in the Coq model; floats enter Coq as exact dyadic rationals; sums compared within '
    '1e-9 * (1 + sum of |terms|); verdicts within 1e-9 of the tolerance boundary are guard-banded',
    'modelled, not verified: the expression parser and evaluator (oracles), numpy norm / float rounding (exact rationals in the model), '
    "voluptuous' validation of the configuration, variable sampling, Python's range / sum / dict order, "
    'post-evaluation validation (forbidden strings, required / permitted functions: property C09)',
    'case encoding: strings are interned injectively (the model only compares them and tests emptiness / blankness), floats are '
    'written as mantissa * 2^exponent, summand evaluations of one call as a table indexed by the arithmetic progression of its points',
    'independent reference harness/summation_exprs.py (Gaussian rationals in Fractions)',
]
ASSUMPTIONS = ['limits are integers or +-infinity and |finite limit| <= cutoff (the implementation sorts the limits before replacing infinity)',
               'infty_val / infty_val_fact are positive integers (the documented type); even_odd in {0, 1, 2}',
               'value theorems assume the evaluator oracle succeeds on the index set; reindexing needs a commutative monoid of values',
               'failable_evals = 0 in the main verdict theorem (the general consolidation rule is proved separately)']
LEVEL_TEXT = ('Theorems for all integer limits, all cutoffs, every parity setting, every number of samples and every evaluator: the range '
              'handed to range() enumerates exactly the integers between the two limits (either order, infinity replaced by the cutoff) of the '
              'requested parity, in increasing order; the sum is symmetric in the limits, invariant under index shifts (even shifts under a '
              'parity filter), reversal and renaming; the verdict is correct iff every sample is within tolerance; limit, dummy-variable, '
              'blank-field, input-position and author-failure error classes. perform_summation and the limit checks are regenerated from '
              'integralgrader.py on every run; the grader flow is tied by differential correspondence (trace level: evaluation points and sums).')
LEVEL_NOTE = ('Exact rationals; evaluator, parser, check_scope and tolerance norm are oracles; one full-strength error statement is refuted by the '
              'faithful model (failures of the author\'s own sum outside the guarded evaluation are reported to the student: four known findings) '
              'and kept as a _refuted witness next to the _partial theorem; the instructor-variable statements are full since the fix commits '
              '390fac8 / e54e9a1; no axioms.')
TECHNIQUE = 'Coq proof (induction on ranges/lists, lia) + source-to-Gallina translator + vm_compute trace correspondence + exact reference oracle'
DESIGN_REF = 'DESIGN.md section 3, C19'
