"""
main.py -- entry point:  ./check <id> [--tier quick|thorough] [--replay path]   |   ./check --setup
"""
import argparse
import importlib
import json
import os
import sys
import time
import traceback

sys.path.insert(0, os.environ.get('VERIF_REPO', '/repo'))
from harness import core                      # noqa: E402
from harness.core import log                  # noqa: E402

ALL_IDS = ['C%02d' % i for i in range(1, 21)]


def load(pid):
    return importlib.import_module('harness.props.' + pid.lower())


def available():
    out = []
    for pid in ALL_IDS:
        if os.path.exists(os.path.join(core.VERIF, 'harness', 'props', pid.lower() + '.py')):
            out.append(pid)
    return out


class TranslateError(Exception):
    pass


def regenerate(mod):
    """Run the module's translators; returns list of broken-obligation strings."""
    broken = []
    for name, fn in getattr(mod, 'TRANSLATORS', []):
        try:
            text = fn()
            core.write_if_changed(os.path.join(core.COQ, name), text)
        except Exception as e:        # fail-closed: anything outside the subset aborts the translation
            broken.append('translator %s: %s: %s' % (name, type(e).__name__, e))
            path = os.path.join(core.COQ, name)
            if not os.path.exists(path):
                core.write_if_changed(path, '(* translation failed: %s *)\n' % str(e).replace('*)', '* )'))
    return broken


def setup():
    """Regenerate Gen files and build the closure of every claimed property (MANIFEST.json checks);
    unclaimed work in progress is built too but cannot fail the setup."""
    t0 = time.time()
    try:
        claimed = [c['property_id'] for c in json.load(open(os.path.join(core.VERIF, 'MANIFEST.json')))['checks']]
    except (OSError, ValueError, KeyError):
        claimed = []
    targets, extra = [], []
    for pid in available():
        try:
            mod = load(pid)
            for x in regenerate(mod):
                log('setup: ' + x)
            t = mod.PROPS[:-2] + '.vo'
            if os.path.exists(os.path.join(core.COQ, mod.PROPS)):
                (targets if pid in claimed else extra).append(t)
        except Exception as e:
            log('setup: %s: %s' % (pid, e))
            if pid in claimed:
                return 1
    core.ensure_makefile()
    rc = 0
    if targets:
        ok, out, failed, cmd, dt = core.make(targets, timeout=3000)
        if not ok:
            log(out[-6000:])
            log('setup: build failed: %s' % failed)
            rc = 1
    if extra:
        ok, out, failed, cmd, dt = core.make(extra, timeout=3000)
        if not ok:
            log('setup: unclaimed work in progress does not build yet: %s' % failed)
    log('setup: %d claimed targets, %d unclaimed, %.0fs' % (len(targets), len(extra), time.time() - t0))
    return rc


def run_check(pid, tier, seed):
    t0 = time.time()
    mod = load(pid)
    props_rel = mod.PROPS
    broken = []

    # 1. regenerate Gen files from /repo's working tree
    broken += regenerate(mod)

    # 2. build
    # the closure of the Props file, plus every model file (the case files import *Agree models that no Props file needs)
    models = [f[:-2] + '.vo' for f in core.coq_files() if f.startswith('Model/')]
    ok, out, failed, make_cmd, make_s = core.make([props_rel[:-2] + '.vo'] + models)
    names, props_text = core.theorems_of(props_rel)
    obligations = len(names)
    discharged = 0
    assumptions = {}
    if not ok:
        for f in failed:
            broken.append('does not check: coq/%s' % f)
        log(out[-3000:])
    gate = core.grep_gate(core.closure_of(props_rel))
    for g in gate:
        broken.append('forbidden construct: ' + g)

    # 3. assumptions
    axioms_used = set()
    if ok:
        assumptions, raw = core.print_assumptions(props_rel, pid)
        if assumptions is None:
            broken.append('Print Assumptions failed for %s' % props_rel)
            assumptions = {}
        for n in names:
            axs = assumptions.get(n)
            if axs is None:
                broken.append('theorem %s: no Print Assumptions output' % n)
                continue
            bad = [a for a in axs if not core.axiom_allowed(a)]
            if bad:
                broken.append('theorem %s depends on non-standard axioms %s' % (n, bad))
            else:
                discharged += 1
                axioms_used.update(axs)
    if gate:
        discharged = 0

    # 3b. thorough tier: independent re-check of the compiled closure with coqchk, axioms listed with -o
    coqchk_report = None
    if ok and tier == 'thorough' and not os.environ.get('VERIF_SKIP_COQCHK'):
        coqchk_report = core.coqchk(props_rel)
        if not coqchk_report['ok']:
            broken.append('coqchk rejected the compiled closure of %s' % props_rel)

    # 4./5. correspondence and oracle
    changed = core.fingerprints_changed(pid, getattr(mod, 'MIRRORED', []))
    ctx = {'tier': tier, 'seed': seed, 'model_built': ok, 'broken': list(broken),
           'fingerprints_changed': changed,
           'escalate': bool(changed) or bool(broken) or tier == 'thorough'}
    try:
        res = mod.run(ctx)
    except Exception:
        tb = traceback.format_exc()
        log(tb)
        res = core.Result()
        broken.append('harness failure: ' + tb.strip().splitlines()[-1])
    for name, tail in res.corr_errors:
        broken.append('correspondence file %s did not evaluate' % name)
        log(tail)
    if res.disagreements:
        broken.append('correspondence: model and implementation differ on %d case(s)' % len(res.disagreements))

    # 6. verdict
    known = core.known_findings(pid)
    classify = getattr(mod, 'classify_known', lambda w, known: None)
    unknown, hits = [], {}
    for w in res.witnesses:
        k = classify(w, known)
        if k is None:
            unknown.append(w)
        else:
            hits.setdefault(k, w)
    lines = []
    for k, w in sorted(hits.items()):
        lines.append('KNOWN-FINDING: property=%s %s' % (pid, k))
    violations = 0
    if unknown:
        seen = set()
        for w in unknown:
            key = w.get('key', json.dumps(w, sort_keys=True, default=repr))
            if key in seen or len(seen) >= 5:
                continue
            seen.add(key)
            path = core.save_replay(pid, {'property': pid, 'kind': 'impl-witness', 'seed': seed,
                                          'witness': w, 'broken': broken})
            lines.append('VIOLATION property=%s replay=%s' % (pid, path))
            violations += 1
    elif broken:
        path = core.save_replay(pid, {'property': pid, 'kind': 'no-failing-input-found', 'seed': seed,
                                      'broken': broken, 'disagreements': res.disagreements[:5],
                                      'fingerprints_changed': changed,
                                      'searched': {'oracle_evaluations': res.oracle_evals, 'programs': res.programs}})
        lines.append('VIOLATION property=%s replay=%s no-failing-input-found' % (pid, path))
        violations += 1

    trusted = ['Coq 8.16.1 kernel + vm_compute (no native_compute); coqchk -o on the thorough tier']
    if axioms_used:
        trusted.append('standard-library axioms reported by Print Assumptions: ' + ', '.join(sorted(axioms_used)))
    else:
        trusted.append('Print Assumptions: every theorem of %s is closed under the global context' % props_rel)
    trusted += list(getattr(mod, 'TRUSTED', []))
    cov = {
        'obligations': obligations, 'discharged': discharged,
        'checker_cmd': make_cmd + ' && coqc Print-Assumptions file for %s' % props_rel,
        'trusted_base': trusted,
        'theorems': {n: assumptions.get(n) for n in names},
        'programs': res.programs, 'disagreements_checked': len(res.disagreements),
        'evaluations': res.programs + res.oracle_evals,
        'distinct_nontrivial': len(res.nontrivial) if not isinstance(res.nontrivial, int) else res.nontrivial,
        'rule': res.rule, 'samples': res.samples[:8] or ['(no case ran)'],
        'distribution': res.distribution, 'boundary_guarded': res.boundary,
        'exhaustive': bool(res.exhaustive),
        'fingerprints_changed': changed, 'broken_obligations': broken,
        'refuted_theorems_standing': list(getattr(mod, 'REFUTED', [])),
        'known_findings_hit': sorted(hits), 'notes': res.notes, 'make_s': round(make_s, 1),
        'coqchk': coqchk_report,
    }
    ev = {'property_id': pid, 'tier': tier, 'seed': seed, 'level': 'proof', 'coverage': cov,
          'assumptions': list(getattr(mod, 'ASSUMPTIONS', [])), 'wall_s': round(time.time() - t0, 2),
          'violations': violations}
    # evidence/ holds runs against /repo itself only; runs against a scratch tree (VERIF_REPO) go to _build/
    evdir = os.path.join(core.VERIF, 'evidence') if os.path.realpath(core.REPO) == '/repo' \
        else os.path.join(core.BUILD, 'evidence_scratch')
    os.makedirs(evdir, exist_ok=True)
    with open(os.path.join(evdir, pid + '.json'), 'w') as f:
        json.dump(ev, f, indent=1, default=repr)
        f.write('\n')
    for ln in lines:
        print(ln)
    print('%s: %s tier, %d/%d obligations discharged, %d cases model-vs-implementation (%d disagree), '
          '%d oracle evaluations, %d violation(s), %.1fs' %
          (pid, tier, discharged, obligations, res.programs, len(res.disagreements), res.oracle_evals,
           violations, time.time() - t0))
    sys.stdout.flush()
    return 1 if violations else 0


def replay(pid, path):
    mod = load(pid)
    payload = json.load(open(path))
    if payload.get('kind') == 'no-failing-input-found':
        print('replay names broken obligations, no input: %s' % payload.get('broken'))
        return run_check(pid, 'quick', int(payload.get('seed', 0)))
    reproduces, text = mod.replay(payload['witness'])
    print(text)
    if reproduces:
        print('VIOLATION property=%s replay=%s' % (pid, path))
        return 1
    print('%s: replay does not reproduce on the current tree' % pid)
    return 0


def main():
    ap = argparse.ArgumentParser()
    ap.add_argument('id', nargs='?')
    ap.add_argument('--tier', default=os.environ.get('VERIF_TIER', 'quick'), choices=['quick', 'thorough'])
    ap.add_argument('--replay')
    ap.add_argument('--setup', action='store_true')
    ap.add_argument('--record-fingerprints', action='store_true')
    a = ap.parse_args()
    if a.setup:
        sys.exit(setup())
    if a.record_fingerprints:
        for pid in ([a.id] if a.id else available()):
            core.fingerprints_record(pid, getattr(load(pid), 'MIRRORED', []))
        sys.exit(0)
    seed = int(os.environ.get('VERIF_SEED', '0') or 0)
    if a.replay:
        sys.exit(replay(a.id, a.replay))
    sys.exit(run_check(a.id, a.tier, seed))


if __name__ == '__main__':
    main()
